"""C19 -- robust estimators and smoothers obey their defining invariants.
D1 decorator contract, D2 two-sided tie tolerance of the weighted median, D3 pad / unpad pairing of the smoothers,
D4 translation / scale typing of the estimator bodies, D5 constant data (see estyping.py)."""
import ast
import itertools
from fractions import Fraction as Fr

from ..core import AnalysisError, own_nodes, norm, parents, stmt_of, dominates
from .. import flow
from .. import estyping

LEVEL_TEXT = ('static analysis: (D1) every public estimator of cnvlib/descriptives.py is wrapped by on_array / on_weighted_array, the scale '
              'estimators with default 0 (a single value has no spread) and the location estimators without one; the wrappers strip NaN, return '
              'NaN for no data and the value / the default for a single value; (D2) comparisons against a float-epsilon tolerance that decide '
              "equality are two-sided (abs(...)) -- which two values the weighted median's tie branch averages is decided by the defining-"
              'inequality clause and the D6 oracle, not by matching the slice; (D3) every smoother path that pads by `wing` (through check_inputs'
              ' / _pad_array) returns a [wing:-wing] slice of the padded result (one value per input; the weighted Kaiser path, outside the '
              'property, is reported as information); (D3c) the convolution kernels, evaluated exactly on literal arrays, return a constant '
              'signal unchanged for uniform and non-uniform weights and 1-3 passes; (D4) a dimension-analysis style type system interpreted over '
              'the estimator bodies, all paths: under x -> x + c every value is LOC (moves by c) or INV (unchanged) and under x -> s*x has a '
              'degree; each location estimator must return LOC, each scale estimator INV of degree 1 and provably non-negative (sign domain: abs '
              '/ even power / sqrt / sorted difference / ordered percentile difference) ; a multiplicity rule rides on the same interpretation: '
              'an array that went through np.unique / drop_duplicates may feed extremes, lengths and element picks but not a mean, median, '
              "percentile, sum, density or estimator (ties would count once) (the two biweights' max(c*mad, epsilon) mixes a degree-1 value with "
              "an absolute constant: that is the property's own exception and leaves only their scale typing undecided); (D5) the same bodies "
              'interpreted on the uniform vector (k, k, k) with exact arithmetic in k: every scale estimator evaluates to 0 and every location '
              'estimator to k (an order comparison on k that generic k cannot decide is decided at the representative constants k = 7 and k = -7), and a library call whose precondition constant data violates (gaussian_kde needs a non-singular covariance) is a '
              "finding; the wrappers' contract (NaN stripped, no data -> NaN, one value -> the value / 0) is evaluated the same way; (D5b) on "
              'exactly symmetric data the biweight midvariance is the documented 1.4826 * MAD. (D3d) savgol interpreted on constant signals of '
              "2..40 values, weighted or not, five parameter sets, with scipy's stated preconditions (polyorder < window_length <= len(signal)) "
              'as the contracts of the stubs: no precondition is violated and one value per input comes back; (D6) every estimator interpreted '
              'through its decorator on 11 literal vectors (majority tied, outlier, symmetric, constant, two and twelve values) with exact '
              'rational arithmetic equals an independent transcription of its formula (biweight location / midvariance, MAD, IQR, Qn with the '
              "docstring's factors for n < 400, gapper, weighted median / MAD / std). (D3e) rolling_median / rolling_quantile / unweighted kaiser"
              ' interpreted on literal signals of 2..9 values (constant, step, spike, zigzag; widths as a fraction, an integer, wider than the '
              'signal) with a stated model of Series.rolling(center=True) and np.convolve: one value per input, a constant signal unchanged, '
              'values inside the input range; _pad_array mirrors exactly `wing` values per side (this replaces matching the text of the '
              '[wing:-wing] slices). The typing of D4 also carries a rounding taint -- a value that went through a data-dependent division may '
              'not enter an equality-within-epsilon test (exact ties of equal weights would be missed) -- and rejects np.isclose on location-type'
              ' or scale-dependent values. The constant evaluator of D5 / D6 has 2-D arrays (a[:, None] - a, np.triu, mask selection), so '
              'vectorised pairwise forms are decided as well. D6 includes a tied majority with neighbours a few thousandths away (between the '
              'absolute floor and c times it); D3b takes the half-window from check_inputs, whatever helpers compute it. Does not decide '
              "numerical values on general data beyond those vectors, Qn's factor for n >= 400, finiteness of weighted smoother outputs.")
TECHNIQUE = ('decorator-contract and tolerance lints; structured-dominance pad/unpad pairing; abstract interpretation with a translation/scale '
             'type domain and a uniform-vector domain; exact rational evaluation on literal vectors against independent formula transcriptions; '
             "library-precondition contracts for scipy's savgol")

LOCATION = {"biweight_location": "on_array", "modal_location": "on_array", "weighted_median": "on_weighted_array"}
SCALE = {"biweight_midvariance": "on_array", "gapper_scale": "on_array", "interquartile_range": "on_array", "median_absolute_deviation": "on_array",
         "weighted_mad": "on_weighted_array", "weighted_std": "on_weighted_array", "mean_squared_error": "on_array", "q_n": "on_array"}
DESC = "cnvlib.descriptives"


def decorator_of(fi):
    out = []
    for d in fi.node.decorator_list:
        if isinstance(d, ast.Call):
            out.append((norm(d.func), [norm(a) for a in d.args] + [f"{k.arg}={norm(k.value)}" for k in d.keywords]))
        else:
            out.append((norm(d), None))
    return out


def d1(chk, prog):
    chk.clause("D1", "decorator contract: estimators wrapped; scale estimators default 0; wrappers handle NaN / empty / single value")
    chk.rule("decorator-contract", "location estimators: @on_array() / @on_weighted_array(); scale estimators: @on_array(0) / @on_weighted_array(0)")
    m = prog.module(DESC)
    public = [f for n, f in m.functions.items() if not n.startswith("_") and n not in ("on_array", "on_weighted_array")]
    unknown = [f.name for f in public if f.name not in LOCATION and f.name not in SCALE]
    if unknown:
        # the property names its estimators; another public function living in (or moved into) descriptives.py is not one of them
        chk.note(f"public function(s) {unknown} in descriptives.py are none of the estimators the property names: not classified")
    public = [f for f in public if f.name not in unknown]
    gone = sorted((set(LOCATION) | set(SCALE)) - {f.name for f in public})
    if gone:
        raise AnalysisError(f"C19-D1: anchor vanished: estimator(s) {gone} of the property are no longer defined in descriptives.py")
    chk.floor("estimators in descriptives.py", len(public), 11)
    for f in public:
        decs = decorator_of(f)
        want = LOCATION.get(f.name) or SCALE[f.name]
        is_scale = f.name in SCALE
        hit = [d for d in decs if d[0] == want]
        if not hit:
            chk.violate("decorator-contract", f"{f.qn}::decorator", f.loc(), f"{f.name} is not wrapped by @{want}(...): NaN stripping and the empty / single-value cases are lost "
                        f"(decorators: {[d[0] for d in decs]})")
            continue
        if hit[0][1] is None:
            chk.violate("decorator-contract", f"{f.qn}::decorator", f.loc(), f"@{want} used without a call: the function itself is passed as `default`")
            continue
        chk.ok("decorator-contract", f"{f.name}: wrapped by @{want}(...)", where=f.loc())
    # what the wrappers do (NaN stripped, no data -> NaN, a single value -> the value / 0) is decided by evaluation in D5


EPS_NAMES = ("epsilon", "eps", "tol", "tolerance")


def _is_eps(e):
    s = norm(e)
    return s in ("sys.float_info.epsilon", "np.finfo(float).eps", "np.finfo(np.float64).eps") or (isinstance(e, ast.Name) and e.id.lower() in EPS_NAMES)


def d2(chk, prog):
    chk.clause("D2", "tolerance comparisons deciding equality are two-sided; the weighted median's tie branch is index-consistent")
    chk.rule("two-sided-tolerance", "`x - y < eps` (or <=) with eps a float-epsilon name is true for every x < y: an equality test must be `abs(x - y) < eps`")
    n = 0
    for fi in prog.functions.values():
        if fi.mod not in (DESC, "cnvlib.smoothing", "cnvlib.segmetrics", "cnvlib.fix"):
            continue
        for c in own_nodes(fi.node):
            if not (isinstance(c, ast.Compare) and len(c.ops) == 1):
                continue
            l, r, op = c.left, c.comparators[0], c.ops[0]
            if _is_eps(l) and not _is_eps(r):
                l, r = r, l
                op = {ast.Lt: ast.Gt, ast.LtE: ast.GtE, ast.Gt: ast.Lt, ast.GtE: ast.LtE}.get(type(op), type(op))()
            if not _is_eps(r):
                continue
            n += 1
            one_sided = isinstance(l, ast.BinOp) and isinstance(l.op, ast.Sub) and isinstance(op, (ast.Lt, ast.LtE))
            chk.decide(not one_sided, "two-sided-tolerance", f"{fi.name}: `{norm(c)[:70]}`", f"{fi.qn}::{norm(c)[:80]}", fi.loc(c),
                       f"`{norm(c)}` is a one-sided test: it holds whenever the left side is smaller, not only when the two are equal within the tolerance "
                       "(weighted_median([1,2,3],[1,1,1]) returns 1.5 instead of 2)")
    chk.floor("tolerance comparisons", n, 1)



def d3(chk, prog):
    chk.clause("D3", "one value per input: the smoothers pad by `wing` mirrored values and return exactly the unpadded part")
    chk.rule("pad-unpad", "every smoother of the property (rolling median / quantile, unweighted Kaiser, Savitzky-Golay, the convolution kernels) is interpreted on literal signals of 2..40 values "
             "for fraction / integer / over-long widths: the result has one value per input value (D3c, D3d, D3e); _pad_array mirrors exactly `wing` values per side")
    sm = prog.module("cnvlib.smoothing")
    # (an earlier version matched the source text of the `[wing:-wing]` slices and of _pad_array's return expression; a behaviour-preserving rewrite would have tripped it.
    #  The lengths are decided by interpretation now; kaiser(weights=...) returning the padded signal stays outside the property's "unweighted Kaiser".)
    chk.note("kaiser(weights=...) returns the padded signal (2*wing extra values); outside the property's 'unweighted Kaiser' clause")


def _unpadded(fi, e, wing, par, depth=0):
    want = f"{wing}:-{wing}"
    for s in ast.walk(e):
        if isinstance(s, ast.Subscript) and isinstance(s.slice, ast.Slice) and norm(s.slice) == want:
            return True, "sliced"
    if isinstance(e, ast.Name) and depth < 3:
        vals = flow.reaching_values(fi, e.id, e, par)
        if vals and all(not isinstance(v, str) and _unpadded(fi, v, wing, par, depth + 1)[0] for v in vals):
            return True, "bound to an unpadded value"
    if isinstance(e, ast.Call) and norm(e.func) == "convolve_unweighted":
        return True, "convolve_unweighted unpads"
    return False, "not unpadded"


def _kaiser_unweighted_ok(fi, wing):
    for n in own_nodes(fi.node):
        if isinstance(n, ast.If) and norm(n.test) == "weights is None":
            return any(isinstance(c, ast.Call) and norm(c.func) == "convolve_unweighted" and any(norm(a) == wing for a in c.args) for b in n.body for c in ast.walk(b))
    return False


def d3b(chk, prog):
    """the half-window never exceeds the signal: wing <= len(x) - 1 for every width (mirror padding needs wing <= n - 1 values on each side)"""
    from ..abstools import Interp, W, T, Undecided
    from ..absval import Raised
    from ..estyping import Arr, const_model
    fi = prog.fn("cnvlib.smoothing.check_inputs")          # (the half-window as check_inputs hands it to every smoother, however it is computed and padded inside)
    bad, n_ok = [], 0
    for width, label in ((Fr(1, 10), "fraction 0.1"), (Fr(9, 10), "fraction 0.9"), (2, "window 2"), (7, "window 7"), (101, "window 101")):
        for n in (2, 3, 4, 5, 7, 10, 25, 60):
            W.reset()
            m = const_model()
            m.ext["np.asarray"] = lambda it_, x, *a, **k: x if isinstance(x, Arr) else Arr(list(x))
            m.ext["np.concatenate"] = lambda it_, parts, *a, **k: Arr([e for p_ in it_.iterate(parts) for e in (p_.v if isinstance(p_, Arr) else list(p_))])
            it = Interp(prog, m)
            sig = Arr([Fr(i % 3) for i in range(n)])
            try:
                res = it.run(fi.qn, [sig, width], dict(as_series=False))
            except Undecided as e:
                raise AnalysisError(f"C19-D3b: cannot evaluate check_inputs(<{n} values>, {label}): {e}")
            except Raised as e:
                bad.append(f"{label}, {n} values: raises {e}")
                continue
            if not (isinstance(res, tuple) and len(res) == 3):
                raise AnalysisError(f"C19-D3b: check_inputs({label}) does not return (x, wing, padded signal): {res!r}")
            wing, padded = res[1], res[2]
            w_ = int(T(wing).cval()) if T(wing).is_const() else None
            plen = len(padded.v) if isinstance(padded, Arr) else None
            if w_ is None or w_ < 1 or w_ > n - 1 or plen != n + 2 * w_:
                bad.append(f"{label}, {n} values: wing = {wing!r}, padded length {plen}")
            else:
                n_ok += 1
    chk.decide(not bad, "pad-unpad", f"check_inputs: the half-window it pads by is between 1 and len(x) - 1, the padded signal 2 * wing longer, for every width kind x 8 signal lengths ({n_ok} cases)", f"{fi.qn}::wing bound", fi.loc(),
               "the half-window is not bounded by len(x) - 1: " + "; ".join(bad[:4]) + " -- for a signal shorter than the minimum wing the mirrored padding is longer than the signal and the "
               "smoothers return fewer / more values than they were given (rolling_median of 2 values returns 0 values)", cells=40)


def same_(a, b):
    from ..abstools import same
    try:
        return same(a, b)
    except Exception:
        return False


def t_sub_(n):
    from ..abstools import t_sub, Term
    return t_sub(n, Term.const(1))


def d45(chk, prog):
    chk.clause("D4", "translation / scale typing: location estimators return LOC (degree 1), scale estimators INV (degree 1)")
    chk.clause("D5", "constant data: scale estimators evaluate to 0, location estimators to the common value; library preconditions hold")
    estyping.check(chk, prog, LOCATION, SCALE)


def d3c(chk, prog):
    """the convolution kernels on literal arrays with exact rational arithmetic: a constant signal comes back constant, whatever the
    (positive) weights and the number of passes; one value per input value"""
    from .. import estyping
    from ..abstools import Interp, W, T, Table, Undecided
    from ..absval import Raised
    from fractions import Fraction as Fr
    Arr = estyping.Arr

    def conv_same(it, a, v, mode="full"):
        from ..absint import binop
        a, v = (a.v if isinstance(a, Arr) else list(a)), (v.v if isinstance(v, Arr) else list(v))
        full = []
        for k in range(len(a) + len(v) - 1):
            acc = 0
            for i in range(len(a)):
                j = k - i
                if 0 <= j < len(v):
                    acc = binop(ast.Add(), acc, binop(ast.Mult(), a[i], v[j]))
            full.append(acc)
        if mode == "full":
            return Arr(full)
        if mode != "same":
            raise Undecided(f"np.convolve mode {mode!r}")
        n = max(len(a), len(v))
        start = (len(full) - n) // 2
        return Arr(full[start:start + n])

    def mk_model():
        m = estyping.const_model()
        m.ext["np.convolve"] = conv_same
        return m
    fw = prog.fn("cnvlib.smoothing.convolve_weighted")
    tb = Table(chk, "constant-signal", "convolve_weighted / convolve_unweighted on literal arrays (exact rationals): constant signal -> the same constant, one value per input", fw.loc(), "cnvlib.smoothing::convolution kernels")
    k = Fr(3, 4)
    for weights, n_iter in itertools.product(([1, 1, 1, 1, 1, 1, 1], [1, 2, 3, 4, 5, 6, 7], [5, 1, 1, 9, 1, 2, 8]), (1, 2, 3)):
        W.reset()
        it = Interp(prog, mk_model())
        n = len(weights)
        out = tb.guard(lambda: it.run(fw.qn, [Arr([Fr(1), Fr(2), Fr(1)]), Arr([k] * n), Arr([Fr(x) for x in weights]), n_iter]), f"weighted weights={weights} passes={n_iter}")
        if out is None:
            continue
        y = out[0] if isinstance(out, tuple) else out
        vals = [T(x).cval() if not isinstance(x, Fr) else x for x in y.v] if isinstance(y, Arr) else None
        tb.cell(vals is not None and len(vals) == n and all(v == k for v in vals), dict(kernel="convolve_weighted", weights=weights, passes=n_iter, got=[str(v) for v in vals] if vals else repr(out)[:60], want=str(k)))
    fu = prog.fn("cnvlib.smoothing.convolve_unweighted")
    for n_iter in (1, 2):
        W.reset()
        it = Interp(prog, mk_model())
        wing, n = 2, 6
        out = tb.guard(lambda: it.run(fu.qn, [Arr([Fr(1), Fr(2), Fr(3), Fr(2), Fr(1)]), Arr([k] * (n + 2 * wing)), wing, n_iter]), f"unweighted passes={n_iter}")
        if out is None:
            continue
        vals = [T(x).cval() if not isinstance(x, Fr) else x for x in out.v] if isinstance(out, Arr) else None
        # (values at the array ends see the zero padding of mode='same'; the interior of the padded signal must be exact)
        tb.cell(vals is not None and len(vals) == n and all(v == k for v in vals[(n_iter - 1) * 2:len(vals) - (n_iter - 1) * 2]),
                dict(kernel="convolve_unweighted", passes=n_iter, got=[str(v) for v in vals] if vals else repr(out)[:60], want=str(k)))
    tb.done("a smoothing kernel does not reproduce a constant signal (or changes the number of values)")


def d3e(chk, prog):
    """the smoothers on literal signals with exact arithmetic (trusted model of Series.rolling(window, min_periods, center=True) and of np.convolve):
    one value per input value, a constant signal comes back unchanged, rolling median and unweighted Kaiser stay inside the input range;
    _pad_array mirrors exactly `wing` values on each side"""
    from .. import estyping
    from ..abstools import Interp, W, T, Table, Undecided
    from ..absval import Raised
    Arr = estyping.Arr

    class Rolling:
        def __init__(self, arr, window, min_periods, center):
            self.arr, self.window, self.minp, self.center = arr, window, min_periods, center

        def _windows(self):
            v, n, w = self.arr.v, len(self.arr.v), self.window
            if not self.center:
                raise Undecided("rolling without center=True")
            off = (w - 1) // 2
            for i in range(n):
                lo = i - off
                yield [v[j] for j in range(max(0, lo), min(n, lo + w))]

        def _apply(self, f):
            minp = self.window if self.minp is None else self.minp
            return Arr((f(win) if len(win) >= minp else None) for win in self._windows())

        def median(self):
            return self._apply(lambda win: estyping._median(Arr(win)))

        def quantile(self, q, **k):
            return self._apply(lambda win: estyping._percentile(Arr(win), Fr(q) * 100 if not isinstance(q, Fr) else q * 100))

    def conv(it, a, v, mode="full"):
        from ..absint import binop
        a, v = (a.v if isinstance(a, Arr) else list(a)), (v.v if isinstance(v, Arr) else list(v))
        full = []
        for k_ in range(len(a) + len(v) - 1):
            acc = 0
            for i in range(len(a)):
                j = k_ - i
                if 0 <= j < len(v):
                    acc = binop(ast.Add(), acc, binop(ast.Mult(), a[i], v[j]))
            full.append(acc)
        if mode != "same":
            return Arr(full)
        n = max(len(a), len(v))
        st = (len(full) - n) // 2
        return Arr(full[st:st + n])

    def mk_model():
        m = estyping.const_model()
        m.ext["np.convolve"] = conv
        m.ext["np.asarray"] = lambda it, x, *a, **k: x if isinstance(x, Arr) else Arr(list(x))
        m.ext["np.concatenate"] = lambda it, parts, *a, **k: Arr([e for p_ in it.iterate(parts) for e in (p_.v if isinstance(p_, Arr) else list(p_))])
        m.ext["pd.Series"] = lambda it, x, *a, **k: x
        # a positive symmetric window stands for the Kaiser window (its values are Bessel-function ratios; only positivity and symmetry matter here)
        m.ext["np.kaiser"] = lambda it, n, beta: Arr([Fr(1 + min(i, n - 1 - i)) for i in range(n)])
        m.method_hooks.append(lambda it, obj, name, args, kw: Rolling(obj, args[0] if args else kw.get("window"), args[1] if len(args) > 1 else kw.get("min_periods"), kw.get("center", False)) if isinstance(obj, Arr) and name == "rolling" else NotImplemented)
        return m

    def lits(a):
        out = []
        for x in a.v:
            t = T(x)
            if x is None or not t.is_const():
                return None
            out.append(t.cval())
        return out
    fp = prog.fn("cnvlib.smoothing.check_inputs")
    tbp = Table(chk, "pad-unpad", "check_inputs on literal arrays: the padded signal is the signal with `wing` mirrored values before and after it (2..9 values x five widths)", fp.loc(), fp.qn + "::mirror")
    for n in (2, 3, 5, 9):
        for width in (2, 5, 8, Fr(1, 2), Fr(9, 10)):
            W.reset()
            it = Interp(prog, mk_model())
            x = [Fr(10 * i + 1) for i in range(n)]
            out = tbp.guard(lambda: it.run(fp.qn, [Arr(list(x)), width], dict(as_series=False)), f"n={n} width={width}")
            if out is None:
                continue
            ok_shape = isinstance(out, tuple) and len(out) == 3 and T(out[1]).is_const()
            wing = int(T(out[1]).cval()) if ok_shape else None
            want = (x[:wing][::-1] + x + x[::-1][:wing]) if wing is not None and 1 <= wing <= n - 1 else None
            got = lits(out[2]) if ok_shape and isinstance(out[2], Arr) else None
            tbp.cell(want is not None and got == want, dict(n=n, width=str(width), wing=wing, got=[str(v) for v in got] if got else repr(out)[:60], want=[str(v) for v in want] if want else None))
    tbp.done("the padded signal is not the signal with exactly `wing` mirrored values on each side (the smoothers then return shifted or extra values)")
    tb = Table(chk, "constant-signal", "rolling_median / rolling_quantile / unweighted kaiser on literal signals (2..9 values; widths as fraction, integer, wider than the signal): one value per input, "
                    "constant signal unchanged, median and Kaiser inside the input range", prog.fn("cnvlib.smoothing.rolling_median").loc(), "cnvlib.smoothing::smoothers on literal signals")
    signals = {"constant": lambda n: [Fr(3, 4)] * n, "step": lambda n: [Fr(0)] * (n // 2) + [Fr(5)] * (n - n // 2), "spike": lambda n: [Fr(1)] * (n - 1) + [Fr(40)], "zigzag": lambda n: [Fr((7 * i) % 5) for i in range(n)]}
    for fname, extra, ranged in (("rolling_median", (), True), ("rolling_quantile", (Fr(1, 4),), True), ("kaiser", (), True)):
        fi = prog.fn(f"cnvlib.smoothing.{fname}")
        for n, width, (sname, sig) in itertools.product((2, 3, 4, 6, 9), (Fr(1, 2), 3, 5, 50), signals.items()):
            if fname == "kaiser" and n < 2:
                continue
            W.reset()
            it = Interp(prog, mk_model())
            x = sig(n)
            from ..absint import CTX
            old = CTX.atoms
            CTX.atoms = lambda d, op: True                     # `assert wing >= 1`
            try:
                out = tb.guard(lambda: it.run(fi.qn, [Arr(list(x)), width] + list(extra)), f"{fname} n={n} width={width} {sname}")
            finally:
                CTX.atoms = old
            if out is None:
                continue
            got = lits(out) if isinstance(out, Arr) else None
            ok = got is not None and len(got) == n
            if ok and sname == "constant":
                ok = all(v == x[0] for v in got)
            if ok and ranged:
                ok = all(min(x) <= v <= max(x) for v in got)
            tb.cell(ok, dict(smoother=fname, n=n, width=str(width), signal=sname, got=[str(v) for v in got] if got is not None else repr(out)[:80], input=[str(v) for v in x]))
    tb.done("a smoother returns another number of values than it was given, does not reproduce a constant signal, or leaves the input range")


def d5b(chk, prog):
    """the documented exception of the biweight midvariance, evaluated exactly: on data symmetric about the location it is 1.4826 * MAD"""
    from .. import estyping
    from ..abstools import Interp, W, T, Table, same
    from ..absval import Closure
    from fractions import Fraction as Fr
    fi = prog.fn(f"{DESC}.biweight_midvariance")
    tb = Table(chk, "constant-data", "biweight_midvariance on exactly symmetric data (location given): 1.4826 * MAD", fi.loc(), fi.qn + "::symmetric data")
    for data, loc in (([-2, -1, 0, 1, 2], 0), ([3, 5, 7], 5), ([10, 10, 14, 18, 18], 14), ([-1, 1], 0)):
        W.reset()
        it = Interp(prog, estyping.const_model())
        out = tb.guard(lambda: ("v", it.call(Closure(fi.node, {}, fi.mod, fi.qn), [estyping.Arr([Fr(x) for x in data])], {"initial": Fr(loc)})), f"data={data}")
        if out is None:
            continue
        dev = sorted(abs(Fr(x) - loc) for x in data)
        mad = dev[len(dev) // 2] if len(dev) % 2 else (dev[len(dev) // 2 - 1] + dev[len(dev) // 2]) / 2
        want = mad * Fr(14826, 10000)
        got = out[1]
        try:
            ok = abs(T(got).cval() - want) < Fr(1, 10 ** 9)
        except Exception:
            ok = False
        tb.cell(ok, dict(data=data, location=loc, got=repr(got), want=str(want)))
    tb.done("on exactly symmetric data the biweight midvariance is not the documented 1.4826 * MAD fallback")


def d3d(chk, prog):
    """savgol for every signal length: the window / order it hands scipy satisfy scipy's stated preconditions, one value per input comes back"""
    from ..abstools import Interp, Model, Table, Vec, W
    from ..absval import Raised
    fi = prog.fn("cnvlib.smoothing.savgol")
    tb = Table(chk, "pad-unpad", "savgol on constant signals of 2..40 values, weighted or not, default / wide / iterated windows: scipy's preconditions (polyorder < window_length <= len(signal)) hold, "
                    "one value per input is returned", fi.loc(), fi.qn)
    for n, wts, (label, kw) in itertools.product((2, 3, 4, 5, 6, 8, 15, 40), (False, True),
                                               (("defaults", {}), ("3 iterations", dict(n_iter=3)), ("window 11 order 5", dict(window_width=11, order=5)), ("total width 5", dict(total_width=5)), ("fraction 0.3", dict(total_width=Fr(3, 10))))):
        W.reset()
        model = Model()
        calls = []

        def filt(it, y, window, order, mode="interp", calls=calls, **k):
            calls.append(("savgol_filter", len(y.v), window, order))
            if not order < window:
                raise Raised("ValueError", "scipy.signal.savgol_filter: polyorder must be less than window_length.")
            if mode == "interp" and window > len(y.v):
                raise Raised("ValueError", "scipy.signal.savgol_filter: If mode is 'interp', window_length must be less than or equal to the size of x.")
            return y

        def coeffs(it, window, order, calls=calls, **k):
            calls.append(("savgol_coeffs", window, order))
            if not order < window:
                raise Raised("ValueError", "scipy.signal.savgol_coeffs: polyorder must be less than window_length.")
            return Vec([Fr(1, window)] * window)
        model.ext["scipy.signal.savgol_filter"] = filt
        model.ext["scipy.signal.savgol_coeffs"] = coeffs
        model.prims["cnvlib.smoothing.convolve_weighted"] = lambda it, window, signal, weights, n_iter=1: (signal, weights)
        it = Interp(prog, model)
        x = Vec([Fr(3)] * n)
        x.exact = True
        w = Vec([Fr(1)] * n)
        w.exact = True
        kws = dict(kw)
        if wts:
            kws["weights"] = w
        out = tb.guard(lambda: it.run(fi.qn, [x], kws), f"n={n} weighted={wts} {label}")
        if out is None:
            continue
        ok = isinstance(out, Vec) and len(out.v) == n and bool(calls)
        tb.cell(ok, dict(n=n, weighted=wts, parameters=label, scipy_calls=calls, returned=len(out.v) if isinstance(out, Vec) else repr(out)))
    tb.done("savgol hands scipy a polynomial order / window it rejects (ValueError instead of a smoothed signal), or returns another number of values than it was given")


def d6(chk, prog, names=None):
    chk.clause("D6" if names is None else "C19-D6", "published formulas: the estimators, interpreted through their decorators on literal vectors with exact rational arithmetic, equal an independent transcription of their formula")
    from ..abstools import Interp, Table, W, same, T, t_mul, Term, Undecided
    from ..absval import f_sqrt
    from ..absval import Closure, Raised
    from ..estyping import const_model, Arr
    vectors = [[0, 0, 0, 1], [0, 0, 0, 0, 1, 4], [0, 1, 2, 3, 10], [Fr(1, 2), 1, Fr(3, 2), 40], [-1, -1, -1, 0, -1, Fr(-1, 2)], [2, 2, 2], [1, 2], [0, 0, 1, 1, 1, 5], [-3, 0, 0, 0, 3],
               [0, 1, 3, 7], [5, 1, 4, 1, 3, 9, 2, 6, 5, 3, 5, 8],
               # a tied majority with near neighbours: MAD 0, the other values a few thousandths away (between the absolute floor 1e-3 and c times it)
               [0, 0, 0, 0, 0, 0, Fr(1, 200), Fr(1, 200), Fr(1, 200)]]
    weights = {4: [1, 1, 2, 1], 6: [1, 3, 1, 1, 2, 1], 5: [1, 1, 2, 1, 1], 3: [2, 1, 1], 2: [1, 3], 12: [1, 2, 1, 1, 1, 3, 1, 1, 2, 1, 1, 1], 9: [1, 1, 1, 2, 1, 1, 1, 1, 1]}

    def med(v):
        s_ = sorted(v)
        n = len(s_)
        return s_[n // 2] if n % 2 else (s_[n // 2 - 1] + s_[n // 2]) / 2

    def pct(v, q):
        s_ = sorted(v)
        pos = Fr(q, 100) * (len(s_) - 1)
        lo = int(pos)
        return s_[lo] if pos == lo else s_[lo] + (pos - lo) * (s_[lo + 1] - s_[lo])

    def wmed(a, w):
        pairs = sorted(zip(a, w), key=lambda p_: p_[0])
        half = Fr(sum(w), 2)
        for x, wt in pairs:
            if wt > half:
                return x
        cum = 0
        for i, (x, wt) in enumerate(pairs):
            cum += wt
            if cum >= half:
                if cum == half and i + 1 < len(pairs):
                    return (x + pairs[i + 1][0]) / 2
                return x

    def biloc(a, initial=None, c=6, eps=Fr(1, 1000), max_iter=5):
        # Tukey's biweight location (Mosteller & Tukey 1977; Beers, Flynn & Gebhardt 1990): scale = MAD about the current estimate, weights (1 - u^2)^2
        if initial is None:
            initial = med(a)
        result = initial
        for _ in range(max_iter):
            d = [x - initial for x in a]
            mad = med([abs(x) for x in d])
            u = [x / max(c * mad, eps) for x in d]
            wt = [(1 - y * y) ** 2 for y in u]
            keep = [i for i in range(len(a)) if wt[i] < 1]
            tot = sum(wt[i] for i in keep)
            result = initial if tot == 0 else initial + sum(d[i] * wt[i] for i in keep) / tot
            if abs(result - initial) <= eps:
                break
            initial = result
        return result

    SD = Fr(14826, 10000)

    def bivar(a, c=9, eps=Fr(1, 1000)):
        initial = biloc(a)
        d = [x - initial for x in a]
        mad = med([abs(x) for x in d])
        u = [x / max(c * mad, eps) for x in d]
        keep = [i for i in range(len(a)) if abs(u[i]) < 1]
        if sum(u[i] for i in keep) == 0:
            return mad * SD                              # exactly symmetric (or tied) data: the stated fallback to the MAD
        num = sum(d[i] ** 2 * (1 - u[i] ** 2) ** 4 for i in keep)
        den = sum((1 - u[i] ** 2) * (1 - 5 * u[i] ** 2) for i in keep)
        return ("sqrt", len(keep) * num / (den * den))

    def qn(a):
        n = len(a)
        q = pct([abs(a[i] - a[j]) for i in range(n) for j in range(i + 1, n)], 25)
        return q / (Fr(1392, 1000) if n <= 10 else 1 + Fr(4, n))           # the docstring's finite-sample factors (n <= 10; fitted 1 + 4/n up to 400)

    def wstd(a, w):
        m = sum(x * y for x, y in zip(a, w)) / sum(w)
        return ("sqrt", sum(y * (x - m) ** 2 for x, y in zip(a, w)) / sum(w))

    def gapper(a):
        s_ = sorted(a)
        n = len(s_)
        return ("sqrt-pi", sum((s_[i] - s_[i - 1]) * i * (n - i) for i in range(1, n)) / (n * (n - 1)))

    oracles = [("biweight_location", False, biloc, "Tukey's biweight location about the median, MAD scale, c = 6"),
               ("biweight_midvariance", False, bivar, "biweight midvariance about the biweight location, c = 9 (MAD fallback on symmetric / tied data)"),
               ("median_absolute_deviation", False, lambda a: SD * med([abs(x - med(a)) for x in a]), "1.4826 * median |x - median|"),
               ("interquartile_range", False, lambda a: pct(a, 75) - pct(a, 25), "75th - 25th percentile"),
               ("q_n", False, qn, "first quartile of the pairwise distances / Cn"),
               ("gapper_scale", False, gapper, "Wainer & Thissen gapper: sum gaps * i (n - i) * sqrt(pi) / (n (n - 1))"),
               ("weighted_median", True, wmed, "lower weighted median, midpoint when exactly half the weight lies on each side"),
               ("weighted_mad", True, lambda a, w: SD * wmed([abs(x - wmed(a, w)) for x in a], w), "1.4826 * weighted median |x - weighted median|"),
               ("weighted_std", True, wstd, "sqrt of the weighted mean squared deviation from the weighted mean")]
    pi = None
    for name, weighted, oracle, what in oracles:
        if names is not None and name not in names:
            continue
        fi = prog.fn(f"{DESC}.{name}")
        tb = Table(chk, "est-const", f"{name} on {len(vectors)} literal vectors (majority tied, outlier, symmetric, constant, two values, 12 values, tied majority with near neighbours) == {what}", fi.loc(), fi.qn + "::formula")
        for v in vectors:
            if name == "gapper_scale" and len(set(v)) == 1:
                continue
            W.reset()
            it = Interp(prog, const_model())
            a = [Fr(x) for x in v]
            args = [Arr(a)] + ([Arr([Fr(x) for x in weights[len(v)]])] if weighted else [])
            try:
                got = it.call(Closure(fi.node, {}, fi.mod, fi.qn), args, {})
            except Undecided as e:
                tb.undecided.append(f"data {v}: {e}")
                continue
            except Raised as e:
                tb.cell(False, dict(data=[str(x) for x in v], raised=str(e)))
                continue
            want = oracle(a, [Fr(x) for x in weights[len(v)]]) if weighted else oracle(a)
            if isinstance(want, tuple) and want[0] == "sqrt":
                wt_ = f_sqrt(T(want[1]))
            elif isinstance(want, tuple):
                if pi is None:
                    pi = it.lib.ext_attr(it, "np", "pi")
                wt_ = t_mul(T(want[1]), f_sqrt(T(pi)))
            else:
                wt_ = T(want)
            tb.cell(got is not None and same(T(got), wt_), dict(data=[str(x) for x in v], weights=weights[len(v)] if weighted else None, got=repr(got)[:70], want=repr(wt_)[:70]))
        tb.done(f"{name} is not {what}: it disagrees with an independent transcription of the formula on literal data")


def run(chk):
    prog = chk.prog
    chk.trust("Python grammar via ast", "numpy reductions: median / percentile / mean / average of translated data translate, differences do not (estyping.py table)",
              "scipy.stats.gaussian_kde requires a non-singular data covariance (raises LinAlgError on constant data)")
    d1(chk, prog)
    d2(chk, prog)
    d3(chk, prog)
    d3b(chk, prog)
    d3c(chk, prog)
    d3d(chk, prog)
    d3e(chk, prog)
    d45(chk, prog)
    d5b(chk, prog)
    d6(chk, prog)


_D = "cnvlib/descriptives.py"
_S = "cnvlib/smoothing.py"
MUTANTS = [
    dict(name="regress: weighted_mad without default 0", file=_D, old="@on_weighted_array(0)\ndef weighted_mad", new="@on_weighted_array()\ndef weighted_mad"),
    dict(name="regress: weighted_std without default 0", file=_D, old="@on_weighted_array(0)\ndef weighted_std", new="@on_weighted_array()\ndef weighted_std"),
    dict(name="regress: one-sided tie test", file=_D, old="and abs(cumulative_weight[midpoint_idx] - midpoint) < sys.float_info.epsilon", new="and cumulative_weight[midpoint_idx] - midpoint < sys.float_info.epsilon"),
    dict(name="seeded C19c: modal_location fits the density to the distinct values", file=_D, old="    sarr = np.sort(a)\n    if sarr[0] == sarr[-1]:", new="    sarr = np.unique(a)\n    if len(sarr) == 1:"),
    dict(name="twin: constant-data guard through np.unique, density from all values", expect="silent", file=_D, old="    sarr = np.sort(a)\n    if sarr[0] == sarr[-1]:", new="    sarr = np.sort(a)\n    if len(np.unique(a)) == 1:"),
    dict(name="MAD of the distinct values", file=_D, old="    a_median = np.median(a)\n    mad = np.median(np.abs(a - a_median))", new="    a = np.unique(a)\n    a_median = np.median(a)\n    mad = np.median(np.abs(a - a_median))"),
    dict(name="on_array no longer strips NaN", file=_D, old="            a = a[~np.isnan(a)]\n            if not len(a):\n                return np.nan\n            if len(a) == 1:", new="            if not len(a):\n                return np.nan\n            if len(a) == 1:"),
    dict(name="twin: single-value case as a conditional expression", expect="silent", file=_D, old="                if default is None:\n                    return a[0]\n                return default\n            return f(a, **kwargs)", new="                return a[0] if default is None else default\n            return f(a, **kwargs)"),
    dict(name="regress: modal_location on constant data", file=_D, old="    if sarr[0] == sarr[-1]:\n        # All values equal: no density to estimate (gaussian_kde would fail)\n        return sarr[0]\n", new=""),
    dict(name="remove decorator of gapper_scale", file=_D, old="@on_array(0)\ndef gapper_scale", new="def gapper_scale"),
    dict(name="location estimator with default 0", file=_D, old="@on_array()\ndef modal_location", new="@on_array(0)\ndef modal_location"),
    dict(name="tie slice off by one", file=_D, old="        return a[midpoint_idx : midpoint_idx + 2].mean()", new="        return a[midpoint_idx - 1 : midpoint_idx + 1].mean()"),
    dict(name="rolling_median returns padded", file=_S, old="    rolled = signal.rolling(2 * wing + 1, 1, center=True).median()\n    # if rolled.hasnans:\n    #     rolled = rolled.interpolate()\n    return np.asarray(rolled[wing:-wing], dtype=float)", new="    rolled = signal.rolling(2 * wing + 1, 1, center=True).median()\n    return np.asarray(rolled, dtype=float)"),
    dict(name="twin: savgol unpads with an explicit upper bound", expect="silent", file=_S, old="    return y[total_wing:-total_wing]", new="    return y[total_wing:len(y) - total_wing]"),
    dict(name="twin: _pad_array written with reversed slices", expect="silent", file=_S, old="    return np.concatenate((x[wing - 1 :: -1], x, x[: -wing - 1 : -1]))", new="    return np.concatenate((x[:wing][::-1], x, x[::-1][:wing]))"),
    dict(name="_pad_array mirrors one value too few on the right", file=_S, old="    return np.concatenate((x[wing - 1 :: -1], x, x[: -wing - 1 : -1]))", new="    return np.concatenate((x[wing - 1 :: -1], x, x[: -wing : -1]))"),
    dict(name="twin: rolling_median unpads by position arithmetic", expect="silent", file=_S, old="    return np.asarray(rolled[wing:-wing], dtype=float)\n\n\ndef rolling_quantile", new="    return np.asarray(rolled[wing : len(rolled) - wing], dtype=float)\n\n\ndef rolling_quantile"),
    dict(name="savgol returns padded", file=_S, old="    return y[total_wing:-total_wing]", new="    return y"),
    dict(name="convolve_unweighted keeps padding", file=_S, old="    y = y[wing:-wing]\n    return y", new="    return y"),
    dict(name="MAD without abs", file=_D, old="    mad = np.median(np.abs(a - a_median))\n    if scale_to_sd:", new="    mad = np.median(a - a_median)\n    if scale_to_sd:"),
    dict(name="MAD not centred", file=_D, old="    mad = np.median(np.abs(a - a_median))\n    if scale_to_sd:", new="    mad = np.median(np.abs(a))\n    if scale_to_sd:"),
    dict(name="IQR adds quartiles", file=_D, old="    return np.percentile(a, 75) - np.percentile(a, 25)", new="    return np.percentile(a, 75) + np.percentile(a, 25)"),
    dict(name="biweight location drops initial", file=_D, old="        return initial + (d[mask] * w[mask]).sum() / weightsum", new="        return (d[mask] * w[mask]).sum() / weightsum"),
    dict(name="weighted_std variance not rooted", file=_D, old="    return np.sqrt(var)", new="    return var"),
    dict(name="gapper without gaps", file=_D, old="    gaps = np.diff(np.sort(a))", new="    gaps = np.sort(a)[1:]"),
    dict(name="q_n differences not absolute... signed sum", file=_D, old="            vals.append(abs(x_i - x_j))", new="            vals.append(abs(x_i + x_j))"),
    dict(name="weighted_mad around zero", file=_D, old="    mad = weighted_median(np.abs(a - a_median), weights)", new="    mad = weighted_median(np.abs(a), weights)"),
    dict(name="seeded C19b: minimum wing overrides the truncation to the signal length", file=_S, old="    wing = max(wing, min_wing)\n    wing = min(wing, len(x) - 1)\n", new="    wing = max(min(wing, len(x) - 1), min_wing)\n"),
    dict(name="seeded C19a: majority shortcut at exactly half the weight", file=_D, old="    if (weights > midpoint).any():", new="    if (weights >= midpoint).any():"),
    dict(name="twin: MAD subtraction order", file=_D, old="    mad = np.median(np.abs(a - a_median))\n    if scale_to_sd:", new="    mad = np.median(np.abs(a_median - a))\n    if scale_to_sd:", expect="silent"),
    dict(name="twin: tie test operands swapped", file=_D, old="and abs(cumulative_weight[midpoint_idx] - midpoint) < sys.float_info.epsilon", new="and sys.float_info.epsilon > abs(midpoint - cumulative_weight[midpoint_idx])", expect="silent"),
]
