"""C04 -- fix subtracts the reference bin-for-bin by coordinate and normalises soundly.
D1 coordinate join is checked, D2 bad-bin mask, D3 subtraction form and flag routing, D4 weights bounded, D5 centred last,
D6 deterministic windowed correction, D7 role-flow, D8 sample and reference rows stay paired (index provenance)."""
import ast
import itertools
from fractions import Fraction as Fr

from ..abstools import *
from ..absint import CTX
from ..absval import Raised
from ..core import AnalysisError, own_nodes, norm, parents, stmt_of, dominates
from ..effects import Effects, Resolver
from . import C15
from .. import roles, flow, rules

LEVEL_TEXT = ('static analysis: (D1) match_ref_to_sample interpreted on literal tables (reference permuted, a superset, rows equal in start but '
              "not in end, other index labels on both sides): the result is the reference row of every sample bin's own (chromosome, start, end),"
              " in sample order, under the sample's index labels; duplicated coordinates in either table and a sample bin missing from the "
              'reference raise; (D2) mask_bad_bins over the order positions of log2 x {-5, 5}, spread x {1}, depth x {0}, gc x {0.3, 0.7} '
              '(constants folded from params.py), with and without the optional columns: bad <=> not(-5 <= log2 <= 5 and spread <= 1 and depth > '
              '0 and 0.3 <= gc <= 0.7); (D3) do_fix interpreted with the corrections summarised: output log2 = sample log2 - matched reference '
              'log2 for target and antitarget rows alike, targets loaded with (skip_low, gc, edge, no rmask), antitargets with (no skip_low, gc, '
              'no edge, rmask); (D4) apply_weights interpreted with symbolic bin sizes / variances on targets and antitargets, pooled and flat '
              'reference: the interval of every stored weight lies inside [1e-4, 1] (epsilon default 1e-4, not overridden by do_fix); (D5) do_fix'
              ' centres last (apply_weights, then center_all(skip_low=True, PAR genome), nothing stored afterwards -- decided in the D3 table), '
              'and center_all itself shifts by one constant estimated from the covered autosomal bins (C15-D1 rule); (D6) no draw comes from a '
              'generator object that outlives the call; center_by_window applies one seeded permutation to both the bins and the covariate, sorts'
              ' by the covariate with a stable sort, subtracts the rolling median of log2 in that order and re-sorts genomically; (D7) role-flow '
              'of the correction flags; (D8) load_adjust_coverages interpreted over all flag / column combinations with index provenance: sample '
              'rows are sorted (on a copy) before matching, and at return the sample and reference tables carry the same kind of index (both '
              'filtered-in-place or both renumbered), so the label-aligned subtraction pairs each bin with its own reference bin; '
              'GenomicArray.sort itself orders literal shuffled tables by (natural chromosome order, start, end), ties in input order, renumbered'
              ' (C08 rule). (D10) load_adjust_coverages on 16 literal bins with 0 / 7 / 12 bad reference bins: the enabled corrections run, on '
              "exactly the kept bins of sample and reference alike, with window fraction max(0.01, kept^-1/2) or the caller's; the sample reaches"
              ' the matching step in genomic order for 5 literal input orders (on a copy); get_edge_bias on literal two-chromosome tables (chr2 '
              "before chr10) gives every bin the loss / gain formula of its own chromosome's tiles, in row order; an off-target bin without "
              'sample coverage still gets a weight in range (D4, literal variant). (D9) edge_losses / edge_gains are the documented rational '
              'functions of target size, gap and insert size in every order case (exact identities over symbols). Which bins count as null '
              'coverage (left out of the centring): drop_low_coverage on literal tables (C15 LOW rule). D1 also matches one reference twice in '
              "one interpreter, its rows reversed in between and its metadata carried over: the second match is by the rows' current coordinates."
              ' (CLI) the `fix` command line(s), through a model of argparse built from the declarations in commands.py and the real _cmd_ body '
              'interpreted with readers, library step and writers stubbed: target / antitarget / reference files in their roles, each --no-gc / '
              '--no-edge / --no-rmask switch alone, cluster, sample id, PAR genome and smoothing fraction reach do_fix as given. Does not decide '
              'rolling-median values, depth-scale invariance or weight monotonicity.')
TECHNIQUE = "dominance (must-pass-through); abstract interpretation over order positions and over index-provenance tags; structural dataflow of the windowed correction; role-flow"

FIX = "cnvlib.fix"


def d1(chk, prog):
    chk.clause("D1", "coordinate join: reference rows are paired with sample bins by (chromosome, start, end); duplicates and missing bins raise")
    fi = prog.fn(f"{FIX}.match_ref_to_sample")
    coords = prog.fn("skgenome.gary.GenomicArray.coords")
    req = None
    for st in prog.classes["GenomicArray"].node.body:
        if isinstance(st, ast.Assign) and norm(st.targets[0]) == "_required_columns":
            req = ast.literal_eval(st.value)
    chk.decide(req == ("chromosome", "start", "end"), "coordinate-join", "GenomicArray._required_columns = (chromosome, start, end)", f"{coords.qn}::columns", coords.loc(), f"coords() columns are {req}")
    tb = Table(chk, "coordinate-join", "match_ref_to_sample on literal tables: reference permuted / a superset / with other labels; duplicated or missing coordinates", fi.loc(), fi.qn)
    bins = [("chr1", 0, 100), ("chr1", 100, 250), ("chr1", 100, 300), ("chr2", 0, 100), ("chr2", 50, 100)]

    def table(keys, tag, labels):
        rows = [dict(chromosome=c, start=s, end=e, gene=f"{tag}{i}", log2=Term.sym(f"{tag}_{c}_{s}_{e}_{i}"), rowid=f"{tag}{i}") for i, (c, s, e) in enumerate(keys)]
        return make_ga("CopyNumArray", rows, {"sample_id": tag}, index="any", exact=True, labels=labels)
    cases = [("identical order", bins, bins, None),
             ("reference reversed", bins, bins[::-1], None),
             ("reference is a superset, rotated", bins[1:4], bins[3:] + bins[:3], None),
             ("same start, different end", [bins[1], bins[2]], [bins[2], bins[1]], None),
             ("single bin", [bins[4]], bins, None),
             ("duplicate in the sample", bins[:2] + [bins[1]], bins, "ValueError"),
             ("duplicate in the reference", bins[:2], bins[:2] + [bins[0]], "ValueError"),
             ("bin missing from the reference", bins[:3], bins[:2] + bins[3:], "ValueError"),
             ("same start and chromosome, other end only", [bins[1]], [bins[2]], "ValueError")]
    for label, skeys, rkeys, want_exc in cases:
        W.reset()
        slabels = [40 + 3 * i for i in range(len(skeys))][::-1]
        rlabels = [7 * i + 1 for i in range(len(rkeys))]
        samp, ref = table(skeys, "s", slabels), table(rkeys, "r", rlabels)
        it = Interp(prog)
        try:
            out = it.run(fi.qn, [ref, samp])
            raised = None
        except Raised as r:
            out, raised = None, str(r)
        except Undecided as u:
            tb.undecided.append(f"{label}: {u}")
            continue
        if want_exc:
            tb.cell(raised is not None and want_exc in raised, dict(case=label, raised=raised, want=want_exc))
            continue
        ok = raised is None and isinstance(out, GA) and out.data.n == len(skeys)
        got = None
        if ok:
            got = list(out.data.cols["rowid"].v)
            want = [f"r{rkeys.index(k)}" for k in skeys]
            ok = got == want and out.data.labels == slabels and [tuple(out.data.cols[c].v[i] for c in ("chromosome", "start", "end")) for i in range(len(skeys))] == list(skeys)
            ok = ok and list(samp.data.cols["rowid"].v) == [f"s{i}" for i in range(len(skeys))] and list(ref.data.cols["rowid"].v) == [f"r{i}" for i in range(len(rkeys))]
        tb.cell(ok, dict(case=label, raised=raised, reference_rows=got, result_labels=getattr(out.data, "labels", None) if isinstance(out, GA) else None, sample_labels=slabels))
    # one reference used again after its rows were re-ordered (ref.sort(), or a derived table of the same length: as_dataframe / copy hand the metadata on):
    # the second match is by the rows' current coordinates, whatever the first call may have left in the metadata
    W.reset()
    it = Interp(prog)
    skeys = bins[:4]
    samp = table(skeys, "s", [40 + 3 * i for i in range(4)])
    ref1 = table(bins, "r", [7 * i + 1 for i in range(5)])
    first = tb.guard(lambda: it.run(fi.qn, [ref1, samp]), "one reference matched twice: first call")
    if first is not None:
        rkeys2 = bins[::-1]
        rows2 = [dict(chromosome=c, start=s_, end=e_, gene=f"q{i}", log2=Term.sym(f"q_{c}_{s_}_{e_}_{i}"), rowid=f"q{i}") for i, (c, s_, e_) in enumerate(rkeys2)]
        ref2 = make_ga("CopyNumArray", rows2, dict(ref1.meta), index="any", exact=True, labels=[7 * i + 1 for i in range(5)])
        try:
            out2 = it.run(fi.qn, [ref2, samp])
            got2 = list(out2.data.cols["rowid"].v) if isinstance(out2, GA) else repr(out2)[:60]
        except Raised as r:
            got2 = f"raised {r}"
        except Undecided as u:
            tb.undecided.append(f"one reference matched twice: {u}")
            got2 = None
        if got2 is not None:
            want2 = [f"q{rkeys2.index(k)}" for k in skeys]
            tb.cell(got2 == want2, dict(case="the same reference after its rows were reversed (metadata carried over from the first call)", reference_rows=got2, want=want2,
                                        metadata_after_first_call=sorted(k_ for k_ in ref1.meta if k_ != "sample_id")))
    tb.done("the reference is not matched to the sample bin for bin by coordinates (or bad input is not refused)")


def _loop_dominates(g, r, par):
    """guard inside a for-loop that itself precedes the return"""
    p = par.get(g)
    while p is not None and not isinstance(p, ast.For):
        p = par.get(p)
    return p is not None and dominates(p, r, par)


def d2(chk, prog):
    chk.clause("D2", "bad-bin mask over order positions; constants from params.py")
    fi = prog.fn(f"{FIX}.mask_bad_bins")
    pm = prog.module("cnvlib.params")
    consts = {k: ast.literal_eval(pm.assigns[k]) for k in ("MIN_REF_COVERAGE", "MAX_REF_SPREAD", "GC_MIN_FRACTION", "GC_MAX_FRACTION") if k in pm.assigns}
    if len(consts) != 4:
        raise AnalysisError("params constants vanished")
    chk.decide(consts == {"MIN_REF_COVERAGE": -5.0, "MAX_REF_SPREAD": 1.0, "GC_MIN_FRACTION": 0.3, "GC_MAX_FRACTION": 0.7}, "bad-bin-mask",
               f"params: {consts}", "cnvlib.params::reference filter constants", "cnvlib/params.py", f"stated filters are log2 within +-5, spread <= 1, GC within 0.3-0.7; params has {consts}")
    tb = Table(chk, "bad-bin-mask", "mask_bad_bins (log2 x spread x depth x gc positions, optional columns)", fi.loc(), fi.qn)
    L = [Fr(-6), Fr(-5), Fr(0), Fr(5), Fr(6)]
    S = [Fr(1, 2), Fr(1), Fr(3, 2)]
    D = [Fr(0), Fr(3)]
    G = [Fr(1, 5), Fr(3, 10), Fr(1, 2), Fr(7, 10), Fr(4, 5)]
    for has_depth, has_gc in itertools.product([True, False], [True, False]):
        combos = list(itertools.product(L, S, D if has_depth else [None], G if has_gc else [None]))
        rows = []
        for l, s, d, g in combos:
            r = dict(chromosome="chr1", start=0, end=1, gene="g", log2=l, spread=s)
            if has_depth:
                r["depth"] = d
            if has_gc:
                r["gc"] = g
            rows.append(r)
        W.reset()
        it = Interp(prog)
        arr = make_ga("CopyNumArray", rows, {})
        out = tb.guard(lambda: it.run(fi.qn, [arr]), f"depth={has_depth} gc={has_gc}")
        if out is None:
            continue
        for i, (l, s, d, g) in enumerate(combos):
            good = (-5 <= l <= 5) and s <= 1 and (d is None or d > 0) and (g is None or Fr(3, 10) <= g <= Fr(7, 10))
            tb.cell(out.v[i] is (not good), dict(log2=str(l), spread=str(s), depth=str(d), gc=str(g), masked=out.v[i], want=not good))
    tb.done("the reference filter does not flag exactly the bins outside (log2 +-5, spread <= 1, depth > 0, GC 0.3-0.7)")
    # (that load_adjust_coverages keeps exactly the unflagged bins, of sample and matched reference alike, is decided in D10 on literal tables)


def d3(chk, prog):
    chk.clause("D3", "subtraction form: log2 = sample - matched reference; block flags; centring afterwards")
    fi = prog.fn(f"{FIX}.do_fix")
    tb = Table(chk, "subtraction-form", "do_fix with corrections summarised", fi.loc(), fi.qn)
    for do_gc, do_edge, do_rmask, with_anti in itertools.product([True, False], [True, False], [True, False], [True, False]):
        W.reset()
        model = Model()
        calls, events = [], []

        def lac(it, cnarr, ref, skip_low, fix_gc, fix_edge, fix_rmask, par, smoothing_window_fraction=None, calls=calls):
            calls.append((cnarr.meta.get("kind"), skip_low, fix_gc, fix_edge, fix_rmask, par))
            kind = cnarr.meta.get("kind")
            rows = [dict(chromosome="chr1", start=Term.sym(f"{kind}_s{i}"), end=Term.sym(f"{kind}_e{i}"), gene=("Antitarget" if kind == "anti" else "G"),
                         log2=Term.sym(f"R_{kind}{i}"), spread=Term.sym(f"sp_{kind}{i}")) for i in range(cnarr.data.n)]
            refm = make_ga("CopyNumArray", rows, {"sample_id": "ref"}, index="range", exact=True)
            c = GA(cnarr.cls, cnarr.data.copy(), cnarr.data.n, dict(cnarr.meta))
            return (c, refm)
        model.prims[f"{FIX}.load_adjust_coverages"] = lac

        def aw(it, cnarr, ref_matched, log2_key, spread_key, epsilon=None, events=events):
            events.append(("apply_weights", [repr(x) for x in cnarr.data.cols["log2"].v], log2_key, spread_key))
            return it.run_method(cnarr, "add_columns", [], {"weight": Vec([Term.sym(f"W{i}") for i in range(cnarr.data.n)])})
        model.prims[f"{FIX}.apply_weights"] = aw

        def center(it, obj, *a, events=events, **k):
            events.append(("center_all", [repr(x) for x in obj.data.cols["log2"].v], k))
            return None
        model.method_prims["center_all"] = center

        def add(it, obj, other):
            if other.data.n:
                obj.data = DF({c: Vec(list(obj.data.cols[c].v) + list(other.data.cols[c].v), aligned=True) for c in obj.data.cols}, obj.data.n + other.data.n, "range")
                obj.data.exact = True
            return None
        model.method_prims["add"] = add
        it = Interp(prog, model)

        def sample(kind, n):
            rows = [dict(chromosome="chr1", start=Term.sym(f"{kind}_s{i}"), end=Term.sym(f"{kind}_e{i}"), gene=("Antitarget" if kind == "anti" else "G"), log2=Term.sym(f"S_{kind}{i}")) for i in range(n)]
            g = make_ga("CopyNumArray", rows, {"sample_id": "S", "kind": kind}, exact=True)
            if not rows:
                g = GA("CopyNumArray", DF({c: Vec([], aligned=True) for c in ("chromosome", "start", "end", "gene", "log2")}, 0), 0, {"sample_id": "S", "kind": kind})
                g.data.exact = True
            return g
        tgt, anti = sample("tgt", 2), sample("anti", 2 if with_anti else 0)
        ref = make_ga("CopyNumArray", [dict(chromosome="chr1", start=0, end=1, gene="G", log2=0, spread=0)], {})
        out = tb.guard(lambda: it.run(fi.qn, [tgt, anti, ref, "grch38", do_gc, do_edge, do_rmask]), f"gc={do_gc} edge={do_edge} rmask={do_rmask}")
        if out is None:
            continue
        want_calls = [("tgt", True, do_gc, do_edge, False, "grch38"), ("anti", False, do_gc, False, do_rmask, "grch38")]
        kinds = ["tgt", "tgt"] + (["anti", "anti"] if with_anti else [])
        want = [t_sub(Term.sym(f"S_{k}{i % 2}"), Term.sym(f"R_{k}{i % 2}")) for i, k in enumerate(kinds)]
        got = out.data.cols["log2"].v
        ok = calls == want_calls and len(got) == len(want) and all(same(a, b) for a, b in zip(got, want))
        ev = [e[0] for e in events]
        ok_order = ev == ["apply_weights", "center_all"] and events[1][2].get("skip_low") is True and events[1][2].get("diploid_parx_genome") == "grch38" \
            and events[0][1] == [repr(x) for x in want] and events[0][2:] == ("log2", "spread")
        ok_w = "weight" in out.data.cols
        tb.cell(ok and ok_order and ok_w, dict(do_gc=do_gc, do_edge=do_edge, do_rmask=do_rmask, antitargets=with_anti, block_calls=calls, log2=[repr(x) for x in got],
                                                want=[repr(x) for x in want], events=ev))
    tb.done("fix does not return sample log2 - reference log2 per bin (or routes the correction flags / final centring wrongly)")


def d4(chk, prog):
    chk.clause("D4", "weights are clipped into [1e-4, 1]")
    fi = prog.fn(f"{FIX}.apply_weights")
    eps = dict(zip([a.arg for a in fi.node.args.args][-len(fi.node.args.defaults):], fi.node.args.defaults)).get("epsilon")
    ok = eps is not None and Fr(str(ast.literal_eval(eps))) == Fr(1, 10000)
    chk.decide(ok, "weight-bounds", "epsilon default = 1e-4", f"{fi.qn}::epsilon", fi.loc(), f"lower weight bound is {norm(eps) if eps is not None else None}, stated 0.0001")
    # interval analysis of the stored weight column, every branch combination (pooled / flat reference, antitargets present / mostly empty)
    tb = Table(chk, "weight-bounds", "apply_weights: interval of every stored weight is inside [1e-4, 1] (targets and antitargets, pooled and flat reference)", fi.loc(), fi.qn)
    # (third antitarget variant: one off-target bin has no coverage in the sample and is left out of the variance estimate -- it still gets a weight)
    for with_anti, pooled in itertools.product([True, False, "one empty"], [True, False]):
        W.reset()
        genes = ["G", "H"] + (["Antitarget", "Antitarget"] if with_anti else [])
        rows = [dict(chromosome="chr1", start=Term.sym(f"s{i}", 0, INF, True), end=Term.sym(f"e{i}", 1, INF, True), gene=g, log2=Term.sym(f"v{i}"), depth=Term.sym(f"d{i}", 0, INF)) for i, g in enumerate(genes)]
        lit = with_anti == "one empty"            # literally these four rows (labels that are not positions): a row dropped is a row gone
        cn = make_ga("CopyNumArray", rows, {"sample_id": "S"}, index="any", **(dict(exact=True, labels=[9, 4, 7, 2]) if lit else {}))
        ref = make_ga("CopyNumArray", [dict(chromosome="chr1", start=r["start"], end=r["end"], gene=r["gene"], log2=Term.sym(f"R{i}"), spread=Term.sym(f"sp{i}", 0, INF)) for i, r in enumerate(rows)], {}, index="any",
                      **(dict(exact=True, labels=[9, 4, 7, 2]) if lit else {}))
        model = Model()
        model.prims["cnvlib.descriptives.biweight_midvariance"] = lambda it, *a, **k: Term.sym(f"bmv{len(W.sym_range)}", 0, INF)
        if with_anti == "one empty":
            model.method_prims["drop_low_coverage"] = lambda it, g, *a, **k: it.lib.load_subscript(it, g, Vec([i != g.data.n - 1 or g.data.cols["gene"].v[i] != "Antitarget" for i in range(g.data.n)]))
        else:
            model.method_prims["drop_low_coverage"] = lambda it, g, *a, **k: g
        model.method_prims["residuals"] = lambda it, g, *a, **k: Vec([Term.sym(f"res{i}") for i in range(g.data.n)])
        it = Interp(prog, model)
        old = CTX.atoms
        CTX.atoms = lambda d, op, pooled=pooled: pooled
        try:
            out = tb.guard(lambda: it.run(fi.qn, [cn, ref, "log2", "spread"]), f"antitargets={with_anti} pooled={pooled}")
        finally:
            CTX.atoms = old
        if out is None:
            continue
        w = out.data.cols.get("weight")
        if w is None:
            tb.cell(False, dict(antitargets=with_anti, pooled=pooled, weight_column=None))
            continue
        for i, x in enumerate(w.v):
            if x is None:
                tb.cell(False, dict(antitargets=with_anti, pooled=pooled, bin=genes[i], weight="missing (NaN)"))
                continue
            t = T(x)
            tb.cell(t.lo >= 1e-4 - 1e-18 and t.hi <= 1, dict(antitargets=with_anti, pooled=pooled, bin=genes[i], weight=repr(t)[:120], interval=[t.lo, t.hi]))
    tb.done("a stored bin weight can leave [1e-4, 1] (0 or negative weights break the segmenters; > 1 is not a weight)")
    fd = prog.fn(f"{FIX}.do_fix")
    calls = [n for n in own_nodes(fd.node) if isinstance(n, ast.Call) and norm(n.func) == "apply_weights"]
    ok = len(calls) == 1 and len(calls[0].args) <= 4 and not any(k.arg == "epsilon" for k in calls[0].keywords)
    chk.decide(ok, "weight-bounds", "do_fix does not override epsilon", f"{fd.qn}::apply_weights call", fd.loc(), "do_fix must call apply_weights with the default epsilon")


def d5(chk, prog):
    chk.clause("D5", "centred last: decided inside D3 (the interpreted do_fix records apply_weights then center_all(skip_low=True, PAR genome), and the returned log2 is the subtraction result with nothing stored afterwards)")


def d6(chk, prog):
    chk.clause("D6", "center_by_window: one seeded permutation for bins and covariate, stable sort, rolling median subtracted, genomic re-sort")
    for sfi, sn, desc in rules.shared_generators(prog):
        if sfi.mod == FIX:
            chk.violate("deterministic-correction", f"{sfi.qn}::{norm(sn)[:70]}", sfi.loc(sn), f"`{norm(sn)[:60]}` draws from a generator that outlives the call ({desc}): a second fix in the same "
                        "process shuffles differently, so the correction is no longer a function of its inputs")
    chk.rule("deterministic-correction", "center_by_window interpreted on six bins with tied covariate values: the draw is preceded by a constant seed; the rolling median is "
             "taken over log2 in non-decreasing covariate order (ties in the seeded shuffle order); every bin gets the value at its own rank subtracted; the result is "
             "re-sorted; the caller's array is untouched")
    fi = prog.fn(f"{FIX}.center_by_window")
    tb = Table(chk, "deterministic-correction", "center_by_window on 6 bins (covariate as Series / ndarray; with ties)", fi.loc(), fi.qn)
    perm = [3, 0, 5, 1, 4, 2]
    # the covariate comes as an ndarray, as a Series on the bins' own index, or as a Series still carrying the row labels of the (filtered) reference it was taken
    # from while the bins were renumbered by an earlier correction: it is paired with the bins by position in every case
    for as_series in (True, False, "foreign labels"):
        W.reset()
        keys = [Fr(5, 10), Fr(2, 10), Fr(5, 10), Fr(9, 10), Fr(2, 10), Fr(7, 10)]
        ev = []
        model = Model()
        model.ext["np.random.seed"] = lambda it, s, ev=ev: ev.append(("seed", s))

        def positions(vals):
            r = Vec(list(vals))                  # an integer ndarray
            r.exact = True
            return r

        def permutation(it, x, ev=ev):
            ev.append(("draw", "permutation"))
            return positions(perm)
        model.ext["np.random.permutation"] = permutation

        def argsort(it, k, kind=None, **kw):
            ev.append(("argsort", kind))
            vals = list(k.v) if isinstance(k, Vec) else list(k)
            if kind in ("mergesort", "stable"):
                return positions(sorted(range(len(vals)), key=lambda i: vals[i]))
            # an unstable sort may order ties arbitrarily: model the adversarial choice (ties reversed)
            return positions(sorted(range(len(vals)), key=lambda i: (vals[i], -i)))
        model.ext["np.argsort"] = argsort
        model.method_hooks.append(lambda it, obj, name, args, kw: argsort(it, obj, *args, **kw) if isinstance(obj, Vec) and name == "argsort" else NotImplemented)

        def rolling(it, ser, frac, ev=ev):
            ev.append(("rolling_median", [repr(x) for x in ser.v], frac))
            return Vec([Term.sym(f"bias_at_rank{r}") for r in range(len(ser.v))])
        model.prims["cnvlib.smoothing.rolling_median"] = rolling
        it = Interp(prog, model)
        lg = [Term.sym(f"v{i}") for i in range(6)]
        rows = [dict(chromosome="chr1", start=100 * i, end=100 * i + 50, gene="g", log2=lg[i]) for i in range(6)]
        if as_series == "foreign labels":
            arr = make_ga("CopyNumArray", rows, {"sample_id": "S"}, exact=True, labels=[0, 1, 2, 3, 4, 5])
            key = Vec(keys, aligned="subset")
            key.exact, key.labels = True, [10, 11, 13, 14, 16, 17]
        else:
            arr = make_ga("CopyNumArray", rows, {"sample_id": "S"}, index="any", exact=True)
            key = Vec(keys, aligned=True) if as_series else Vec(keys)
        out = tb.guard(lambda: it.run(fi.qn, [arr, Fr(1, 10), key]), f"covariate as {'a Series on another table labels' if as_series == 'foreign labels' else 'Series' if as_series else 'ndarray'}")
        if out is None:
            continue
        seeds = [e for e in ev if e[0] == "seed"]
        draws = [i for i, e in enumerate(ev) if e[0] == "draw"]
        ok_seed = bool(seeds) and isinstance(seeds[0][1], int) and bool(draws) and ev.index(seeds[0]) < draws[0]
        # expected order: shuffle by perm, then stable sort by key
        shuffled = list(perm)
        order = sorted(range(6), key=lambda p: keys[shuffled[p]])
        ranked = [shuffled[p] for p in order]                      # original row index at each rank
        rm = [e for e in ev if e[0] == "rolling_median"]
        ok_order = len(rm) == 1 and rm[0][1] == [repr(lg[i]) for i in ranked] and same(rm[0][2], Fr(1, 10))
        got = {int(T(s_).cval()) // 100: v for s_, v in zip(out.data.cols["start"].v, out.data.cols["log2"].v)}
        ok_sub = all(same(got[i], t_sub(lg[i], Term.sym(f"bias_at_rank{ranked.index(i)}"))) for i in range(6))
        starts_out = [int(T(s_).cval()) for s_ in out.data.cols["start"].v]
        ok_sorted = ("__sorted__" in out.data.cols or starts_out == sorted(starts_out)) and out is not arr and all(same(a, b) for a, b in zip(arr.data.cols["log2"].v, lg))
        sorts = [e for e in ev if e[0] == "argsort"]
        tb.cell(ok_seed and ok_order and ok_sub and ok_sorted, dict(covariate=("Series on another table's labels" if as_series == "foreign labels" else "Series" if as_series else "ndarray"), seeded_before_draw=ok_seed, sort_kind=sorts[0][1] if sorts else None,
                                                                     smoothing_order=rm[0][1] if rm else None, want_order=[repr(lg[i]) for i in ranked], subtraction_ok=ok_sub, resorted_and_input_untouched=ok_sorted))
    tb.done("the windowed bias correction is not (seeded shuffle, stable sort by the covariate, rolling median of log2 in that order subtracted bin by bin, re-sorted)")


def d7(chk, prog):
    chk.clause("D7", "role-flow of do_gc / do_edge / do_rmask / skip_low / PAR genome")
    roles.check(chk, prog, modules=(FIX, "cnvlib.commands", "cnvlib.batch"), roles_of_interest=("FIX_GC", "FIX_EDGE", "FIX_RMASK", "SKIP_LOW", "PAR_GENOME", "CLUSTER"), floor=15,
                callee_modules=(FIX, "cnvlib.cnary"))


class _Stop(Exception):
    pass


def d8(chk, prog):
    chk.clause("D8", "sample / reference pairing: sorted copy before matching; same index provenance for both tables at return")
    fi = prog.fn(f"{FIX}.load_adjust_coverages")
    # (the sample is put in genomic order, on a copy, before the reference is matched: recorded by the stubs of the table below -- `sample_sorted_before_match`, `c is not samp`)
    tb = Table(chk, "row-pairing", "load_adjust_coverages: index provenance of (sample, reference) at return", fi.loc(), fi.qn)
    for fix_gc, fix_edge, fix_rmask, ref_gc, ref_rmask, low in itertools.product([True, False], [True, False], [True, False], [True, False], [True, False], [False, True]):
        W.reset()
        model = Model()

        def mk(kind, low=low):
            rows = []
            for i in range(4):
                r = dict(chromosome="chr1", start=Term.sym(f"s{i}"), end=Term.sym(f"e{i}"), gene="G", log2=Term.sym(f"{kind}{i}", -INF if low else -10, -16 if low else 10))
                if kind == "R":
                    r["spread"] = Term.sym(f"sp{i}")
                    if ref_gc:
                        r["gc"] = Term.sym(f"gc{i}")
                    if ref_rmask:
                        r["rmask"] = Term.sym(f"rm{i}")
                else:
                    r["depth"] = Term.sym(f"dp{i}")
                rows.append(r)
            return make_ga("CopyNumArray", rows, {"sample_id": kind}, index="any", exact=True)
        samp, ref = mk("S"), mk("R")
        matched = {}

        def match(it, r, s, matched=matched):
            m = mk("R")
            m.data.index = s.data.index              # match_ref_to_sample re-labels with the sample's index (D1)
            matched["sample_index_at_match"] = s.data.index
            matched["sample_sorted"] = "__sorted__" in s.data.cols
            return m
        model.prims[f"{FIX}.match_ref_to_sample"] = match
        model.prims[f"{FIX}.mask_bad_bins"] = lambda it, a: Vec([False, True, False, False])

        def cbw(it, cnarr, frac, key):
            d = cnarr.data.copy()
            d.index = "range"
            return GA(cnarr.cls, d, d.n, dict(cnarr.meta))
        model.prims[f"{FIX}.center_by_window"] = cbw
        model.prims[f"{FIX}.get_edge_bias"] = lambda it, a, m: Vec([0] * a.data.n)
        model.method_prims["center_all"] = lambda it, obj, *a, **k: None
        it = Interp(prog, model)
        out = tb.guard(lambda: it.run(fi.qn, [samp, ref, True, fix_gc, fix_edge, fix_rmask, None]), f"gc={fix_gc} edge={fix_edge} rmask={fix_rmask} ref_gc={ref_gc} ref_rmask={ref_rmask} low={low}")
        if out is None:
            continue
        c, r = out
        ok = c.data.index == r.data.index and c.data.n == r.data.n == 3 and matched.get("sample_sorted") is True and c is not samp and "__sorted__" not in samp.data.cols
        tb.cell(ok, dict(fix_gc=fix_gc, fix_edge=fix_edge, fix_rmask=fix_rmask, reference_has_gc=ref_gc, reference_has_rmask=ref_rmask, mostly_low_coverage=low,
                         sample_index=c.data.index, reference_index=r.data.index, sample_sorted_before_match=matched.get("sample_sorted"),
                         note="'range' = renumbered 0..n-1 after a correction re-sorted the bins; 'subset' = filtered in place, labels kept"))
    # the sample reaches the matching step in genomic order whatever order its rows came in (literal tables)
    tbs = Table(chk, "row-pairing", "load_adjust_coverages on literal sample tables in 5 row orders: the rows handed to match_ref_to_sample are in (chromosome, start, end) order, the caller's table untouched", fi.loc(), fi.qn + "::sorted copy")
    base = [("chr1", 0, 50), ("chr1", 100, 150), ("chr1", 100, 180), ("chr2", 0, 50), ("chr10", 20, 70)]
    for label, order in (("already sorted", [0, 1, 2, 3, 4]), ("chromosome blocks swapped", [3, 0, 1, 2, 4]), ("chr10 before chr2", [0, 1, 2, 4, 3]), ("starts descending", [1, 0, 2, 3, 4]), ("equal starts, ends descending", [0, 2, 1, 3, 4])):
        W.reset()
        model = Model()
        rows = [dict(chromosome=base[i][0], start=base[i][1], end=base[i][2], gene="G", log2=Fr(i, 4), depth=Fr(3)) for i in order]
        samp = make_ga("CopyNumArray", rows, {"sample_id": "S"}, index="range", exact=True, labels=list(range(len(rows))))
        ref = make_ga("CopyNumArray", [dict(chromosome=c, start=a, end=b, gene="G", log2=0, spread=Fr(1, 10)) for c, a, b in base], {"sample_id": "R"}, exact=True)
        seen = {}

        def match(it, r, s_, seen=seen):
            seen["at_match"] = list(zip(s_.data.cols["chromosome"].v, [int(T(x).cval()) for x in s_.data.cols["start"].v], [int(T(x).cval()) for x in s_.data.cols["end"].v]))
            raise _Stop()
        model.prims[f"{FIX}.match_ref_to_sample"] = match
        it = Interp(prog, model)

        def go():
            try:
                it.run(fi.qn, [samp, ref, False, False, False, False, None])
            except _Stop:
                return "matched"
            return "returned"
        out = tbs.guard(go, label)
        if out is None:
            continue
        before = [(base[i][0], base[i][1], base[i][2]) for i in order]
        now = list(zip(samp.data.cols["chromosome"].v, [int(T(x).cval()) for x in samp.data.cols["start"].v], [int(T(x).cval()) for x in samp.data.cols["end"].v]))
        tbs.cell(out == "matched" and seen.get("at_match") == base and now == before, dict(input_order=label, rows_at_match=seen.get("at_match"), want=base, callers_rows_after=now))
    tbs.done("the sample is not in genomic order when the reference is matched to it (the corrections re-sort the bins, so the renumbered rows of the two tables stop corresponding), or the caller's table is re-ordered")
    tb.done("after load_adjust_coverages the sample rows are renumbered while the matched reference rows keep their labels (or vice versa): "
            "`log2 -= reference` then aligns by label onto the wrong bins / yields NaN")


def d9(chk, prog):
    chk.clause("D9", "edge-density covariate: closed forms of edge_losses / edge_gains per order case (symbolic target size, gap, insert size)")
    chk.rule("edge-formula", "losses = i/(2t) - [t < i] (i-t)^2/(2it);  gains = (i-g')^2/(4it) - [t+g' < i] (i-t-g')^2/(4it) with g' = max(0, g) (an overlapping "
             "neighbour counts as adjacent); exact rational identities, the case split decided at one representative point per case")
    fl = prog.fn(f"{FIX}.edge_losses")
    tb = Table(chk, "edge-formula", "edge_losses(t, i)", fl.loc(), fl.qn)
    W.reset()
    i = Term.sym("i", 1, INF, positive=True)
    cases = [("t < i", 100), ("t == i", 200), ("t > i", 500)]
    ts = [Term.sym(f"t{k}", 1, INF, positive=True) for k in range(len(cases))]
    pts = [{"i": 200, f"t{k}": c[1]} for k, c in enumerate(cases)]
    it = Interp(prog)
    old = CTX.atoms
    CTX.atoms = atoms_at(pts)
    try:
        out = tb.guard(lambda: it.run(fl.qn, [Vec(ts), i]), "edge_losses")
    finally:
        CTX.atoms = old
    if out is not None:
        for k, (label, tv) in enumerate(cases):
            t = ts[k]
            want = t_div(i, t_mul(Term.const(2), t))
            if tv < 200:
                want = t_sub(want, t_div(t_mul(t_sub(i, t), t_sub(i, t)), t_mul(t_mul(Term.const(2), i), t)))
            tb.cell(same(out.v[k], want), dict(case=label, got=repr(out.v[k]), want=repr(want)))
    tb.done("edge_losses is not i/2t minus the shoulder term for targets shorter than the insert size")
    fg = prog.fn(f"{FIX}.edge_gains")
    tb = Table(chk, "edge-formula", "edge_gains(t, g, i)", fg.loc(), fg.qn)
    W.reset()
    i = Term.sym("i", 1, INF, positive=True)
    cases = [("g < 0 (overlap), t < i", 50, -30), ("g < 0 (overlap), t >= i", 300, -30), ("g == 0, t < i", 50, 0), ("g == 0, t >= i", 300, 0),
             ("g > 0, t + g < i", 50, 40), ("g > 0, t + g > i", 300, 50), ("g == i", 300, 200)]
    # (the boundary t + g' == i is left out: the subtracted term is 0 there, so `<` and `<=` in the mask agree)
    ts, gs, pts = [], [], []
    for k, (label, tv, gv) in enumerate(cases):
        ts.append(Term.sym(f"t{k}", 1, INF, positive=True))
        if gv < 0:
            gs.append(Term.sym(f"g{k}", -INF, -1))
        elif gv == 0:
            gs.append(Term.const(0))
        else:
            gs.append(Term.sym(f"g{k}", 1, INF))
        pts.append({"i": 200, f"t{k}": tv, f"g{k}": gv})
    it = Interp(prog)
    old = CTX.atoms
    CTX.atoms = atoms_at(pts)
    try:
        out = tb.guard(lambda: it.run(fg.qn, [Vec(ts), Vec(gs), i]), "edge_gains")
    finally:
        CTX.atoms = old
    if out is not None:
        four = Term.const(4)
        for k, (label, tv, gv) in enumerate(cases):
            t, g = ts[k], (Term.const(0) if gv <= 0 else gs[k])
            want = t_div(t_mul(t_sub(i, g), t_sub(i, g)), t_mul(t_mul(four, i), t))
            if tv + max(gv, 0) < 200:
                r = t_sub(t_sub(i, t), g)
                want = t_sub(want, t_div(t_mul(r, r), t_mul(t_mul(four, i), t)))
            tb.cell(same(out.v[k], want), dict(case=label, got=repr(out.v[k]), want=repr(want)))
    tb.done("edge_gains is not (i-g')^2/4it minus the part of the flank extending past the target, with overlapping neighbours treated as adjacent")
    # (gains - losses per bin, laid out in row order on the bins' own index: D10, get_edge_bias on literal tables)


def d10(chk, prog):
    chk.clause("D10", "every enabled correction runs on the bins that passed the reference filters, over the window those bins define; the edge covariate is laid out in row order")
    fi = prog.fn(f"{FIX}.load_adjust_coverages")
    tb = Table(chk, "deterministic-correction", "load_adjust_coverages on 16 well-covered bins with 0 / 7 / 12 bad reference bins: corrections run, on the kept bins, window fraction max(0.01, kept^-1/2) or the caller's", fi.loc(),
               fi.qn + "::gate and window")
    n = 16
    for n_bad, frac in itertools.product((0, 7, 12), (None, Fr(1, 5))):
        W.reset()
        model = Model()
        bad = [i % 2 == 1 and sum(1 for j in range(i) if j % 2 == 1) < n_bad for i in range(n)] if n_bad <= 8 else [i >= n - n_bad for i in range(n)]
        kept = bad.count(False)

        def mk(kind):
            rows = []
            for i in range(n):
                r = dict(chromosome="chr1", start=100 * i, end=100 * i + 50, gene="G", log2=Fr(i % 3, 4))
                if kind == "R":
                    r.update(spread=Fr(1, 10), gc=Fr(4, 10), rmask=Fr(1, 10))
                else:
                    r["depth"] = Fr(5)
                rows.append(r)
            return make_ga("CopyNumArray", rows, {"sample_id": kind}, index="range", exact=True, labels=list(range(n)))
        samp, ref = mk("S"), mk("R")
        model.prims[f"{FIX}.match_ref_to_sample"] = lambda it, r, s_: mk("R")
        mask = Vec(list(bad), aligned="range")
        mask.exact = True
        model.prims[f"{FIX}.mask_bad_bins"] = lambda it, a, mask=mask: mask
        calls = []

        def cbw(it, cnarr, fraction, key, calls=calls):
            calls.append((cnarr.data.n, fraction, len(key.v) if isinstance(key, Vec) else None))
            d = cnarr.data.copy()
            d.index = "range"
            return GA(cnarr.cls, d, d.n, dict(cnarr.meta))
        model.prims[f"{FIX}.center_by_window"] = cbw
        model.prims[f"{FIX}.get_edge_bias"] = lambda it, a, m: Vec([0] * a.data.n)
        model.method_prims["center_all"] = lambda it, obj, *a, **k: None
        it = Interp(prog, model)
        out = tb.guard(lambda: it.run(fi.qn, [samp, ref, True, True, True, True, None, frac]), f"bad={n_bad} fraction={frac}")
        if out is None:
            continue
        want_frac = frac if frac is not None else {16: Fr(1, 4), 9: Fr(1, 3), 4: Fr(1, 2)}[kept]
        ok = len(calls) == 3 and all(c[0] == kept and c[2] == kept for c in calls)
        # the bins returned -- sample and matched reference alike -- are exactly those the reference filter did not flag
        want_starts = [100 * i for i in range(n) if not bad[i]]
        for tab in (out if isinstance(out, tuple) else ()):
            got_starts = [int(T(x).cval()) for x in tab.data.cols["start"].v] if isinstance(tab, GA) else None
            ok = ok and got_starts == want_starts
        ok = ok and isinstance(out, tuple) and len(out) == 2
        for c in calls:
            f_ = c[1]
            try:
                num_ = float(T(f_).cval()) if T(f_).is_const() else None
            except Exception:
                num_ = None
            if isinstance(f_, float):
                num_ = f_
            ok = ok and num_ is not None and abs(num_ - float(want_frac)) < 1e-9
        tb.cell(ok, dict(bad_reference_bins=n_bad, kept=kept, given_fraction=str(frac), center_by_window_calls=[(c[0], repr(c[1]), c[2]) for c in calls], want=dict(calls=3, rows=kept, fraction=str(want_frac))))
    tb.done("an enabled correction is skipped, or smoothed over a window sized by bins that were filtered out, when the reference has bad bins (the gate and the default window must count the kept bins)")
    # the edge covariate: per chromosome in row order
    fe = prog.fn(f"{FIX}.get_edge_bias")
    tb2 = Table(chk, "deterministic-correction", "get_edge_bias on literal two-chromosome tables (chr2 before chr10; different tile layouts): one value per bin, each from its own chromosome's tiles", fe.loc(), fe.qn + "::layout")
    ins = 100

    def losses(t):
        return Fr(ins, 2 * t) - (Fr((ins - t) ** 2, 2 * ins * t) if t < ins else 0)

    def gain(t, g):
        g = max(0, g)
        return Fr((ins - g) ** 2, 4 * ins * t) - (Fr((ins - t - g) ** 2, 4 * ins * t) if t + g < ins else 0)

    def oracle(tiles):
        out = []
        for i, (s_, e_) in enumerate(tiles):
            t = e_ - s_
            v = -losses(t)
            if i > 0 and s_ - tiles[i - 1][1] < ins:
                v += gain(t, s_ - tiles[i - 1][1])
            if i + 1 < len(tiles) and tiles[i + 1][0] - e_ < ins:
                v += gain(t, tiles[i + 1][0] - e_)
            out.append(v)
        return out
    layouts = {"chr2 small abutting tiles, chr10 wide isolated ones": [("chr2", [(0, 40), (40, 90), (120, 150)]), ("chr10", [(0, 500), (1000, 1500)])],
               "chr1, chr10, chr2 in natural order": [("chr1", [(0, 60), (70, 400)]), ("chr2", [(0, 30), (30, 60), (500, 640)]), ("chr10", [(10, 210)])],
               # a neighbour that overlaps the tile counts as adjacent (gap 0), also when the overlap is deeper than the tile is small
               "overlapping neighbours (gap < 0 counts as 0)": [("chr3", [(0, 80), (60, 130), (125, 400), (499, 540)]), ("chr4", [(0, 30), (20, 45)])]}
    for label, lay in layouts.items():
        for labels_kind in ("range", "other"):
            W.reset()
            rows = [dict(chromosome=c, start=s_, end=e_, gene="G", log2=0) for c, tiles in lay for s_, e_ in tiles]
            g = make_ga("CopyNumArray", rows, {}, index="range" if labels_kind == "range" else "any", exact=True, labels=list(range(len(rows))) if labels_kind == "range" else [7 * i + 3 for i in range(len(rows))][::-1])
            it = Interp(prog)
            out = tb2.guard(lambda: it.run(fe.qn, [g, ins]), f"{label}; labels {labels_kind}")
            if out is None:
                continue
            want = [v for c, tiles in lay for v in oracle(tiles)]
            got = list(out.v) if isinstance(out, Vec) else None
            ok = got is not None and len(got) == len(want) and all(same(T(a), T(b)) for a, b in zip(got, want))
            tb2.cell(ok, dict(layout=label, labels=labels_kind, got=[str(x) for x in got] if got else repr(out), want=[str(x) for x in want]))
    tb2.done("the edge covariate of a bin is computed from another chromosome's tiles (per-chromosome results concatenated in an order other than the rows'), or is not the stated loss / gain formula")


def run(chk):
    prog = chk.prog
    chk.trust("Python grammar via ast", "pandas: reindex() yields NaN rows for missing labels; Series arithmetic and column stores align on index; "
              "boolean row selection keeps labels, reset_index / GenomicArray.sort renumber them", "np.argsort(kind='mergesort') is stable")
    d1(chk, prog)
    d2(chk, prog)
    d3(chk, prog)
    d4(chk, prog)
    d5(chk, prog)
    C15.low_coverage(chk, prog)  # which bins count as null coverage: left out of the centre and of the final re-centring (shared with C15)
    C15.d1(chk, prog)            # the centring itself: one constant, estimated from the autosomal bins that have coverage (shared with C15-D1)
    d6(chk, prog)
    d7(chk, prog)
    d8(chk, prog)
    from . import C08
    C08.d2_sort_table(chk, prog)   # the sort both tables go through: (chromosome, start, end), ties in input order
    d9(chk, prog)
    d10(chk, prog)
    chk.clause("CLI", "the `fix` command line: the three files in their roles and each --no-* switch reach do_fix as given")
    from .. import cliglue
    cliglue.check_fix(chk, prog)


_F = "cnvlib/fix.py"
MUTANTS = [
    dict(name="cli: fix swaps the gc and edge switches", file="cnvlib/commands.py", old="        args.do_gc,\n        args.do_edge,\n        args.do_rmask,\n        args.cluster,\n        args.smoothing_window_fraction,", new="        args.do_edge,\n        args.do_gc,\n        args.do_rmask,\n        args.cluster,\n        args.smoothing_window_fraction,"),
    dict(name="cli: --no-rmask stores into do_edge", file="cnvlib/commands.py", old='P_fix.add_argument(\n    "--no-rmask",\n    dest="do_rmask",', new='P_fix.add_argument(\n    "--no-rmask",\n    dest="do_edge",'),
    dict(name="missing-bin raise turned into a warning", file=_F, old="        raise ValueError(\n            f\"Reference is missing {num_missing} bins found in {samp_cnarr.sample_id}\"\n        )", new="        logging.warning(\n            f\"Reference is missing {num_missing} bins found in {samp_cnarr.sample_id}\"\n        )"),
    dict(name="reference keyed by (chromosome, start) only", file=_F, old="    ref_labeled = ref_cnarr.data.set_index(pd.Index(ref_cnarr.coords()))", new="    ref_labeled = ref_cnarr.data.set_index(pd.Index([r[:2] for r in ref_cnarr.coords()]))"),
    dict(name="matched reference keeps its own labels", file=_F, old="        ref_matched.reset_index(drop=True).set_index(samp_cnarr.data.index)\n", new="        ref_matched.reset_index(drop=True)\n"),
    # (pandas' reindex itself refuses a duplicated reference key with a ValueError, so dropping the explicit check of the reference only changes the message)
    dict(name="twin: duplicates checked in the sample only", expect="silent", file=_F, old='    for dset, name in ((samp_labeled, "sample"), (ref_labeled, "reference")):', new='    for dset, name in ((samp_labeled, "sample"),):'),
    dict(name="twin: match_ref_to_sample refactored (keys bound first, isna, no temporary)", expect="silent", file=_F, old="""    ref_matched = ref_labeled.reindex(index=samp_labeled.index)
    # Check for signs that the wrong reference was used
    num_missing = pd.isnull(ref_matched.start).sum()
    if num_missing > 0:""", new="""    sample_keys = samp_labeled.index
    ref_matched = ref_labeled.reindex(index=sample_keys)
    num_missing = pd.isnull(ref_matched["start"]).sum()
    if num_missing:"""),
    dict(name="seeded C04e: reference rows taken by get_indexer positions (absent bin -> -1 -> last row)", file=_F, old="    ref_matched = ref_labeled.reindex(index=samp_labeled.index)", new="    positions = ref_labeled.index.get_indexer(samp_labeled.index)\n    ref_matched = ref_labeled.iloc[positions]"),
    dict(name="duplicates raise removed", file=_F, old="        if dupes.any():\n            raise ValueError(", new="        if False:\n            raise ValueError("),
    dict(name="reference matched by position", file=_F, old="    ref_matched = ref_labeled.reindex(index=samp_labeled.index)", new="    ref_matched = ref_labeled.iloc[: len(samp_labeled)]"),
    dict(name="mask: log2 <= lower bound", file=_F, old='        (cnarr["log2"] < params.MIN_REF_COVERAGE)', new='        (cnarr["log2"] <= params.MIN_REF_COVERAGE)'),
    dict(name="mask: spread >= 1", file=_F, old='        | (cnarr["spread"] > params.MAX_REF_SPREAD)', new='        | (cnarr["spread"] >= params.MAX_REF_SPREAD)'),
    dict(name="mask: depth test dropped", file=_F, old='    if "depth" in cnarr:\n        mask |= cnarr["depth"] == 0\n', new=""),
    dict(name="mask: gc upper bound only", file=_F, old='        mask |= (cnarr["gc"] > upper_gc_bound) | (cnarr["gc"] < lower_gc_bound)', new='        mask |= cnarr["gc"] > upper_gc_bound'),
    dict(name="GC_MIN_FRACTION changed", file="cnvlib/params.py", old="GC_MIN_FRACTION = 0.3", new="GC_MIN_FRACTION = 0.25"),
    dict(name="subtraction turned into addition", file=_F, old='    cnarr.data["log2"] -= ref_matched[log2_key]', new='    cnarr.data["log2"] += ref_matched[log2_key]'),
    dict(name="weights not clipped", file=_F, old="    return cnarr.add_columns(weight=weights.clip(epsilon, 1.0))", new="    return cnarr.add_columns(weight=weights)"),
    dict(name="twin: weights clipped on their own line", expect="silent", file=_F, old="    return cnarr.add_columns(weight=weights.clip(epsilon, 1.0))", new="    weights = np.clip(weights, epsilon, 1.0)\n    return cnarr.add_columns(weight=weights)"),
    dict(name="weights clipped from below only", file=_F, old="    return cnarr.add_columns(weight=weights.clip(epsilon, 1.0))", new="    return cnarr.add_columns(weight=weights.clip(lower=epsilon))"),
    dict(name="flat-reference weights returned unclipped", file=_F, old="        weights = simple_wt\n\n    return cnarr.add_columns(weight=weights.clip(epsilon, 1.0))", new="        return cnarr.add_columns(weight=simple_wt)\n\n    return cnarr.add_columns(weight=weights.clip(epsilon, 1.0))"),
    dict(name="epsilon default 0", file=_F, old="def apply_weights(cnarr, ref_matched, log2_key, spread_key, epsilon=1e-4):", new="def apply_weights(cnarr, ref_matched, log2_key, spread_key, epsilon=0.0):"),
    dict(name="centre before subtracting", file=_F, old='    cnarr.data["log2"] -= ref_matched[log2_key]\n    cnarr = apply_weights(cnarr, ref_matched, log2_key, spread_key)\n    cnarr.center_all(skip_low=True, diploid_parx_genome=diploid_parx_genome)\n', new='    cnarr.center_all(skip_low=True, diploid_parx_genome=diploid_parx_genome)\n    cnarr.data["log2"] -= ref_matched[log2_key]\n    cnarr = apply_weights(cnarr, ref_matched, log2_key, spread_key)\n'),
    dict(name="seed deleted", file=_F, old="    np.random.seed(0xA5EED)\n    shuffle_order", new="    shuffle_order"),
    dict(name="covariate not shuffled", file=_F, old="    sort_key = sort_key[shuffle_order]\n", new=""),
    dict(name="unstable sort", file=_F, old='    order = np.argsort(sort_key, kind="mergesort")', new="    order = np.argsort(sort_key)"),
    dict(name="swap do_edge / do_rmask for the antitargets", file=_F, old="        False,\n        do_gc,\n        False,\n        do_rmask,\n", new="        False,\n        do_gc,\n        do_rmask,\n        False,\n"),
    dict(name="regress: no sorted copy before matching", file=_F, old="    cnarr = cnarr.copy()\n    cnarr.sort()\n", new=""),
    dict(name="seeded C04a: reference renumbered when a correction is requested, not when it ran", file=_F, old="        if cnarr_index_reset:\n", new="        if fix_gc or fix_edge or fix_rmask:\n"),
    dict(name="reference never renumbered", file=_F, old="        if cnarr_index_reset:\n            ref_matched.data.reset_index(drop=True, inplace=True)\n", new=""),
    dict(name="seeded C04b: overlap clamp only in the first gain term", file=_F, old="    gap_sizes = np.maximum(0, gap_sizes)\n    gains = (insert_size - gap_sizes) ** 2 / (4 * insert_size * target_sizes)", new="    gains = (insert_size - np.maximum(0, gap_sizes)) ** 2 / (4 * insert_size * target_sizes)"),
    dict(name="edge loss shoulder sign", file=_F, old="    losses[small_mask] -= (insert_size - t_small) ** 2 / (2 * insert_size * t_small)", new="    losses[small_mask] += (insert_size - t_small) ** 2 / (2 * insert_size * t_small)"),
    dict(name="edge gain mask <=", file=_F, old="    past_other_side_mask = target_sizes + gap_sizes < insert_size", new="    past_other_side_mask = target_sizes + gap_sizes <= insert_size", expect="silent"),
    dict(name="edge bias sign", file=_F, old="        output_by_chrom.append(gains - losses)", new="        output_by_chrom.append(losses - gains)"),
    dict(name="twin: permutation variable renamed", edits=[(_F, "shuffle_order", "perm", True)], expect="silent"),
    dict(name="twin: stable sort through the array method", file=_F, old='    order = np.argsort(sort_key, kind="mergesort")', new='    order = sort_key.argsort(kind="stable")', expect="silent"),
    dict(name="twin: matched reference variable renamed in load_adjust_coverages", edits=[(_F, "ok_cvg_indices", "keep_mask", True)], expect="silent"),
    dict(name="twin: mask comparison flipped", file=_F, old='        | (cnarr["spread"] > params.MAX_REF_SPREAD)', new='        | (params.MAX_REF_SPREAD < cnarr["spread"])', expect="silent"),
]
