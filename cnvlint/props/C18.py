"""C18 -- VCF genotypes become allele frequencies and per-segment BAF as defined.
D1 coordinates, D2 genotype table, D3 closed forms (alt_freq, mirrored BAF, TumorBoost), D4 filters and load_het_snps,
D5 sample choice precedence, D6 per-variant values stay attached to their own rows (index provenance)."""
import ast
import itertools
from fractions import Fraction as Fr

from ..abstools import *
from ..absint import CTX, GenList
from ..absval import Raised
from ..core import AnalysisError, own_nodes, norm, parents

LEVEL_TEXT = ("static analysis: (D1) read_vcf interpreted end to end on literal files (a pysam.VariantFile stand-in that iterates the records, has header.samples / header.records and restricts the sample columns on subset_samples; the private helpers are reached through it, whatever their names and signatures): start = record.start (pysam's 0-based POS - 1), end = "
              'INFO/END when present else start + len(alt), one row per real alternate allele; (D2) the same, on one-record files over the '
              'finite biallelic GT domain x depth source (FORMAT/DP, sum of AD, INFO/DP, none) x allele-count source (AD pair, scalar AD, CLCAD2,'
              ' AO tuple / scalar, none): zygosity 0 / 0.5 / 1, depth and alt count from the documented field in the documented precedence; (D3) '
              'alt_freq = alt_count / depth (likewise for the normal), mirrored BAF = 0.5 +- |v - 0.5| by `above_half` (True / False / None = '
              'majority, every combination with the majority side), TumorBoost = 0.5 t/n where t < n else 1 - 0.5 (1 - t)/(1 - n), as exact '
              "rational identities; (D4) read_vcf keeps a record <=> depth (the normal's when paired) >= min_depth (a missing depth counts as 0) "
              'and, when asked, not SOMATIC; load_het_snps passes skip_somatic and the depth cut-off, drops tumour-variant / normal-reference '
              "genotypes, then keeps the (normal's) heterozygous records -- also when every record is somatic; (D5) the sample whose fields read_vcf reads (and the subset the reader is restricted to), over sample "
              'lists x PEDIGREE header lines x requested ids: PEDIGREE pairs first, else the given normal paired with every other sample, else all '
              'samples unpaired; restricted to the requested sample; a requested control sample comes back alone; the first pair wins; unknown '
              "ids raise; (D6) TumorBoost values are stored back through a Series built on the variants' own index, at both store sites, with "
              "heterozygous() interpreted for real (a fresh 0..n-1 index, or the full array's labels on a renumbered subset, would be aligned by "
              "label onto the wrong variants). (D7) do_call takes a segment's BAF from baf_by_ranges (interpreted; into_ranges labelled as the "
              'real function labels it) over the final segments -- after the ci / sem merges, before the cn filters -- and the values stay on '
              'their own segments of a table whose index is not 0..n-1. D2 includes FORMAT fields that are listed but missing ((None,) / None): '
              'the next count source is used. D7 also decides, for calling method {threshold, clonal, none} x purity {absent, 1, 1/2}, that the '
              'baf column is rescale_baf(purity, observed) exactly when purity < 1. D1 reads a tumour / normal pair in either column order (and '
              "beside a third sample): each sample's own genotype fields, by name. (D8) a segment's variants are looked up on the segment's own "
              'chromosome: by_shared_chroms (C07-D6 rule), incl. a one-chromosome segment table against a genome-wide VCF. (CLI) the `call / '
              'segment` command line(s), through a model of argparse built from the declarations in commands.py and the real _cmd_ body '
              'interpreted with readers, library step and writers stubbed: -v, -i, -n, --min-variant-depth and -z (0.25 when given without a '
              'value) reach load_het_snps as given. D4 also runs load_het_snps with an explicit zygosity cut-off z on literal frequencies: kept '
              "<=> z <= freq < 1 - z; TumorBoost is decided on a tie (tumour = normal frequency) as well. Does not decide pysam's parsing, the "
              "median aggregation values, nor heterozygous()'s documented fallback.")
TECHNIQUE = "abstract interpretation over finite genotype / field-presence domains and order positions; exact rational identities; index-provenance (fresh vs aligned Series) tracking"

V = "skgenome.tabio.vcfio"
VA = "cnvlib.vary"


class SampleCols(dict):
    """record.samples: a mapping by sample name that pysam also lets one index by column position"""

    def abs_getitem(self, it, k):
        if isinstance(k, int) and not isinstance(k, bool):
            return list(self.values())[k]
        if k not in self:
            raise Raised("KeyError", k)
        return dict.__getitem__(self, k)


def rec(start, ref, alts, info=None, samples=None, flt=()):
    """a pysam.VariantRecord as far as the reader can see it: 0-based start, 1-based pos, stop = INFO/END or start + len(ref), alleles, a mapping-like filter"""
    info = dict(info or {})
    stop = info["END"] if "END" in info else t_add(T(start), Term.const(len(ref)))
    return Row({"chrom": "chr7", "contig": "chr7", "start": start, "pos": t_add(T(start), Term.const(1)), "ref": ref, "alts": tuple(alts) if alts is not None else None,
                "alleles": (ref,) + tuple(alts or ()), "info": info, "samples": SampleCols(samples or {}), "filter": {f: f for f in flt}, "id": None, "qual": None, "stop": stop,
                "rlen": len(ref)})


class VcfFile(list):
    """a pysam.VariantFile stand-in: iterating gives the records; .header.samples / .header.records; subset_samples() restricts every record's sample
    columns in place, as pysam does"""

    def __init__(self, records, samples, header_records=()):
        super().__init__(records)
        self.samples = list(samples)
        self.hrecs = list(header_records)
        self.subsets = []


def hrec(key, **items):
    return Row({"key": key, "items": (lambda: list(items.items()))})


def vcf_model(vf, model=None):
    m = model or Model()
    m.ext["pysam.VariantFile"] = lambda it, f, *a, **k: vf

    def attr(it, obj, a):
        if isinstance(obj, VcfFile):
            if a == "header":
                return Row({"samples": list(obj.samples), "records": list(obj.hrecs)})
        return NotImplemented
    m.attr_hooks.append(attr)

    def meth(it, obj, name, args, kw):
        if isinstance(obj, VcfFile) and name == "subset_samples":
            ids = list(args[0])
            obj.subsets.append(ids)
            for r in obj:
                r.samples = SampleCols((k, v) for k, v in r.samples.items() if k in ids)        # pysam keeps the file's column order, not the order asked for
            obj.samples = [k for k in obj.samples if k in ids]
            return None
        return NotImplemented
    m.method_hooks.append(meth)
    return m


def read_vcf_on(prog, tb, label, records, samples, args, header_records=(), atoms=None):
    """read_vcf interpreted end to end on a literal file: (table | None, VcfFile).  The private helpers behind it (record parsing, genotype extraction,
    sample choice, PEDIGREE parsing) are reached through it, whatever they are called and however the work is split between them."""
    vf = VcfFile(records, samples, header_records)
    it = Interp(prog, vcf_model(vf))
    old = CTX.atoms
    if atoms is not None:
        CTX.atoms = atoms
    try:
        out = tb.guard(lambda: it.run(f"{V}.read_vcf", ["x.vcf"] + list(args)), label)
    finally:
        CTX.atoms = old
    return out, vf


def cellv(table, col, i):
    c = table.cols.get(col)
    return c.v[i] if c is not None and i < len(c.v) else None


def kept_rows(table):
    keep = table.cols.get("__keep__")
    n = len(next(iter(table.cols.values())).v) if table.cols else 0
    return [k is True for k in keep.v] if keep is not None else [True] * n


def d1(chk, prog):
    chk.clause("D1", "coordinates: start = record.start (0-based); end = INFO/END or start + len(alt); one row per real alt allele")
    fi = prog.fn(f"{V}.read_vcf")
    tb = Table(chk, "vcf-coordinates", "read_vcf rows on a literal file (five records: SNV, two alternates with <NON_REF>, <DEL> with INFO/END, no ALT, REJECTed)", fi.loc(), fi.qn)
    W.reset()
    s = [Term.sym(f"s{i}", 0, INF, True) for i in range(4)]
    E = Term.sym("END", 0, INF, True)
    smp = {"T": {"GT": (0, 1), "DP": 30, "AD": (20, 10)}}
    records = [rec(s[0], "A", ["C"], {}, smp), rec(s[1], "A", ["CTG", "<NON_REF>"], {}, smp), rec(s[2], "A", ["<DEL>"], {"END": E, "SOMATIC": True}, smp), rec(s[3], "A", None, {}, smp),
               rec(s[3], "A", ["G"], {}, smp, flt=["REJECT"])]
    out, _ = read_vcf_on(prog, tb, "records", records, ["T"], ["T", None, None, True, False])
    if out is not None:
        want = [("chr7", s[0], t_add(s[0], Term.const(1)), "A", "C", False), ("chr7", s[1], t_add(s[1], Term.const(3)), "A", "CTG", False), ("chr7", s[2], E, "A", "<DEL>", True)]
        kept = kept_rows(out)
        n = len(kept)
        for i, w in enumerate(want):
            g = [cellv(out, c, i) for c in ("chromosome", "start", "end", "ref", "alt", "somatic", "zygosity", "depth", "alt_count", "alt_freq")]
            okr = i < n and kept[i] and g[0] == w[0] and same(g[1], w[1]) and same(g[2], w[2]) and g[3] == w[3] and g[4] == w[4] and g[5] is w[5] and same(g[6], Fr(1, 2)) and same(g[7], 30) and same(g[8], 10) \
                and same(g[9], Fr(1, 3))
            tb.cell(okr, dict(row=[repr(x) for x in g], want=[repr(x) for x in w] + ["1/2", "30", "10", "1/3"]))
        tb.cell(n == len(want), dict(rows=n, want_rows=len(want), note="the <NON_REF> placeholder, the record without ALT and the REJECTed record give no row"))
    # a tumour / normal pair, in either column order (and with a third, unrelated sample in the file): each sample's own genotype fields, found by name
    for order in (("T", "N"), ("N", "T"), ("X", "N", "T"), ("T", "X", "N")):
        W.reset()
        fields = {"T": {"GT": (0, 1), "DP": 30, "AD": (20, 10)}, "N": {"GT": (0, 0), "DP": 44, "AD": (43, 1)}, "X": {"GT": (1, 1), "DP": 7, "AD": (0, 7)}}
        smp2 = {k: fields[k] for k in order}
        out, _ = read_vcf_on(prog, tb, f"sample columns {order}", [rec(s[0], "A", ["C"], {}, smp2)], list(order), ["T", "N", None, True, False])
        if out is None:
            continue
        g = [cellv(out, c, 0) for c in ("zygosity", "depth", "alt_count", "n_zygosity", "n_depth", "n_alt_count", "alt_freq", "n_alt_freq")]
        okp = None not in g and same(g[0], Fr(1, 2)) and same(g[1], 30) and same(g[2], 10) and same(g[3], 0) and same(g[4], 44) and same(g[5], 1) and same(g[6], Fr(1, 3)) and same(g[7], Fr(1, 44))
        tb.cell(okp, dict(sample_columns=list(order), tumour="T", normal="N", row=[repr(x) for x in g], want="zygosity 1/2, depth 30, alt 10; normal: 0, 44, 1; frequencies 1/3, 1/44"))
    tb.done("VCF records are not read to (chromosome, 0-based start, end) rows, one per real alternate allele, with each sample's own genotype fields")


def d2(chk, prog):
    chk.clause("D2", "genotype table: zygosity from GT; depth DP -> sum(AD) -> INFO/DP -> missing; alt count AD[1] / AD / CLCAD2[1] / sum(AO) / AO / missing")
    fi = prog.fn(f"{V}.read_vcf")
    tb = Table(chk, "genotype-table", "read_vcf on a one-record file over GT x depth source x count source (a missing depth / count reads as 0 in the table)", fi.loc(), fi.qn + "::genotype fields")
    gts = {(0, 0): 0, (0, 1): Fr(1, 2), (1, 0): Fr(1, 2), (1, 1): 1, (1, 2): Fr(1, 2), (2, 2): 1}
    dp, ad0, ad1, idp, ao = (Term.sym(x, 1, INF, True) for x in ("DP", "AD0", "AD1", "INFO_DP", "AO"))
    depth_src = {"DP": ({"DP": dp}, {}, dp), "AD": ({"AD": (ad0, ad1)}, {}, t_add(ad0, ad1)), "INFO": ({}, {"DP": idp}, idp), "none": ({}, {}, None)}
    count_src = {"AD pair": ({"AD": (ad0, ad1)}, ad1), "AD single-element": ({"AD": (ad0,)}, 0), "AD scalar": ({"AD": ad1}, ad1), "CLCAD2": ({"CLCAD2": (ad0, ad1)}, ad1),
                 "AO tuple": ({"AO": (ao, ad1)}, t_add(ao, ad1)), "AO scalar": ({"AO": ao}, ao), "none": ({}, None),
                 # a FORMAT field that is listed but has no value ('.', which pysam hands over as (None,) / None) is missing: the next source is used
                 "AD missing, AO given": ({"AD": (None,), "AO": ao}, ao), "AD missing, CLCAD2 given": ({"AD": (None,), "CLCAD2": (ad0, ad1)}, ad1), "AD None, AO tuple": ({"AD": None, "AO": (ao, ad1)}, None),
                 "AD and CLCAD2 missing, AO given": ({"AD": (None,), "CLCAD2": (None,), "AO": ao}, ao), "AD missing, nothing else": ({"AD": (None,)}, None)}
    for gt, (dname, (dfmt, dinfo, dwant)), (cname, (cfmt, cwant)) in itertools.product(gts, depth_src.items(), count_src.items()):
        sample_f = dict(dfmt)
        sample_f.update(cfmt)
        # oracle from the merged FORMAT fields, in the documented precedence
        if "DP" in sample_f:
            dwant_eff = sample_f["DP"]
        elif isinstance(sample_f.get("AD"), tuple):
            present = [x for x in sample_f["AD"] if x is not None]
            dwant_eff = 0 if not present else (t_add(ad0, ad1) if len(present) == 2 else ad0)
        elif "DP" in dinfo:
            dwant_eff = dinfo["DP"]
        else:
            dwant_eff = None
        if sample_f.get("AD") not in (None, (None,)):
            a = sample_f["AD"]
            cwant = (a[1] if len(a) > 1 else 0) if isinstance(a, tuple) else a
        elif sample_f.get("CLCAD2") not in (None, (None,)):
            cwant = sample_f["CLCAD2"][1]
        elif "AO" in sample_f:
            cwant = t_add(ao, ad1) if isinstance(sample_f["AO"], tuple) else ao
        else:
            cwant = None
        W.reset()
        for t in (dp, ad0, ad1, idp, ao):
            W.positive.add(t.n.key())
        sample = dict({"GT": gt}, **dfmt)
        sample.update(cfmt)
        r = rec(Term.sym("s", 0, INF, True), "A", ["C"], dinfo, {"T": sample})
        # counts are non-zero (filter(None, ...) / `elif sample['AO']`)
        out, _ = read_vcf_on(prog, tb, f"GT={gt} depth={dname} count={cname}", [r], ["T"], ["T", None, None, False, False], atoms=lambda d, op: True)
        if out is None:
            continue
        depth, zyg, cnt = cellv(out, "depth", 0), cellv(out, "zygosity", 0), cellv(out, "alt_count", 0)
        ok = None not in (depth, zyg, cnt) and same(zyg, gts[gt]) and same(depth, 0 if dwant_eff is None else dwant_eff) and same(cnt, 0 if cwant is None else cwant)
        tb.cell(ok, dict(GT=gt, depth_source=dname, count_source=cname, got=(repr(depth), repr(zyg), repr(cnt)), want=(repr(dwant_eff), str(gts[gt]), repr(cwant))))
    tb.done("zygosity / depth / alt-allele count are not taken from the genotype fields in the documented precedence")


def d3(chk, prog):
    chk.clause("D3", "closed forms: alt_freq (decided with D1 / D4), mirrored BAF, TumorBoost")
    fi = prog.fn(f"{VA}.VariantArray.mirrored_baf")
    tb = Table(chk, "baf-forms", "VariantArray.mirrored_baf", fi.loc(), fi.qn)
    for above in (True, False, None):
        for maj in (True, False):             # the majority side matters only when above_half is None
            W.reset()
            it = Interp(prog)
            x = [Term.sym("lo", 0, Fr(1, 2)), Term.sym("hi", Fr(1, 2), 1)]
            rows = [dict(chromosome="chr1", start=i, end=i + 1, ref="A", alt="C", zygosity=Fr(1, 2), alt_freq=x[i]) for i in range(2)]
            g = make_ga("VariantArray", rows, {"sample_id": "T"}, index="any")
            old = CTX.atoms
            CTX.atoms = lambda d, op, maj=maj: maj
            try:
                out = tb.guard(lambda: it.run_method(g, "mirrored_baf", [above]), f"above_half={above} majority_above={maj}")
            finally:
                CTX.atoms = old
            if out is None:
                continue
            up = above if above is not None else maj
            for xi, gi in zip(x, out.v):
                sh = f_abs(t_sub(xi, Term.const(Fr(1, 2))))
                want = t_add(Term.const(Fr(1, 2)), sh) if up else t_sub(Term.const(Fr(1, 2)), sh)
                tb.cell(same(gi, want), dict(above_half=above, majority_above=maj, got=repr(gi), want=repr(want)))
    tb.done("mirrored BAF is not 0.5 +- |v - 0.5|")
    ft = prog.fn(f"{VA}.VariantArray.tumor_boost")
    tb2 = Table(chk, "baf-forms", "VariantArray.tumor_boost (t < n / t > n / t == n)", ft.loc(), ft.qn)
    W.reset()
    it = Interp(prog)
    t = [Term.sym("t0", 0, 1), Term.sym("t1", 0, 1), Term.sym("t2", 0, 1)]
    n = [Term.sym("n0", 0, 1), Term.sym("n1", 0, 1), Term.sym("n2", 0, 1)]
    pts = [{"t0": Fr(1, 5), "n0": Fr(1, 2)}, {"t1": Fr(4, 5), "n1": Fr(1, 2)}, {"t2": Fr(1, 2), "n2": Fr(1, 2)}]
    rows = [dict(chromosome="chr1", start=i, end=i + 1, ref="A", alt="C", zygosity=Fr(1, 2), n_zygosity=Fr(1, 2), alt_freq=t[i], n_alt_freq=n[i]) for i in range(3)]
    g = make_ga("VariantArray", rows, {"sample_id": "T"}, index="any")
    old = CTX.atoms
    CTX.atoms = atoms_at(pts)
    try:
        out = tb2.guard(lambda: it.run_method(g, "tumor_boost", []), "tumor_boost")
    finally:
        CTX.atoms = old
    if out is not None:
        half = Term.const(Fr(1, 2))
        for i, lt in enumerate((True, False, False)):
            want = t_div(t_mul(half, t[i]), n[i]) if lt else t_sub(Term.const(1), t_div(t_mul(half, t_sub(Term.const(1), t[i])), t_sub(Term.const(1), n[i])))
            tb2.cell(same(out.v[i], want), dict(case="t < n" if lt else ("t > n" if i == 1 else "t == n"), got=repr(out.v[i]), want=repr(want)))
    tb2.done("TumorBoost does not follow 0.5 t/n (t < n) / 1 - 0.5 (1-t)/(1-n)")


def d3b(chk, prog):
    fi = prog.fn(f"{VA}.VariantArray.zygosity_from_freq")
    tb = Table(chk, "baf-forms", "zygosity_from_freq: 0 below het_freq, 1 from hom_freq, else 0.5 -- tumour and normal independently, on a copy", fi.loc(), fi.qn)
    fr = [Fr(1, 10), Fr(1, 4), Fr(1, 2), Fr(3, 4), Fr(9, 10)]
    nfr = [Fr(9, 10), Fr(1, 2), Fr(1, 10), Fr(1, 4), Fr(3, 4)]
    for paired in (True, False):
        W.reset()
        it = Interp(prog)
        rows = [dict(chromosome="chr1", start=i, end=i + 1, ref="A", alt="C", zygosity=Term.sym(f"z{i}"), alt_freq=fr[i]) for i in range(5)]
        if paired:
            for i, r in enumerate(rows):
                r["n_zygosity"] = Term.sym(f"nz{i}")
                r["n_alt_freq"] = nfr[i]
        g = make_ga("VariantArray", rows, {}, index="any")
        out = tb.guard(lambda: it.run_method(g, "zygosity_from_freq", [Fr(1, 4), Fr(3, 4)]), f"paired={paired}")
        if out is None:
            continue

        def z(f):
            return 0 if f < Fr(1, 4) else (1 if f >= Fr(3, 4) else Fr(1, 2))
        ok = all(same(out.data.cols["zygosity"].v[i], z(fr[i])) for i in range(5)) and same(g.data.cols["zygosity"].v[0], Term.sym("z0")) and out is not g
        if paired:
            ok = ok and all(same(out.data.cols["n_zygosity"].v[i], z(nfr[i])) for i in range(5))
        tb.cell(ok, dict(paired=paired, zygosity=[repr(x) for x in out.data.cols["zygosity"].v], n_zygosity=[repr(x) for x in out.data.cols["n_zygosity"].v] if paired else None,
                         want=[str(z(f)) for f in fr], want_normal=[str(z(f)) for f in nfr] if paired else None))
    tb.done("zygosity from allele frequency is not (0 below het_freq, 1 from hom_freq, 0.5 between) for the tumour and the normal separately")


class Reader(list):
    pass


def d4(chk, prog):
    chk.clause("D4", "filters: depth (normal's when paired) >= min_depth; SOMATIC dropped when asked; load_het_snps selection")
    fi = prog.fn(f"{V}.read_vcf")
    tb = Table(chk, "vcf-filters", "read_vcf (paired x min_depth x skip_somatic)", fi.loc(), fi.qn)
    # paired: the normal is named by the caller, or declared by a PEDIGREE header line only (no normal_id given); the file lists the normal's column first
    for paired, min_depth, skip_som in itertools.product([False, "by id", "by PEDIGREE"], [None, 20], [False, True]):
        W.reset()
        depths = [19, 20, 21, 30, None]          # the last record has no depth information at all (DP '.', no AD)
        ndepths = [30, 19, 20, 21, None]
        som = [False, False, True, False, False]

        def smp(d, alt):
            return {"GT": (0, 1)} if d is None else {"GT": (0, 1), "DP": d, "AD": (d - alt, alt)}
        records = [rec(100 + i, "A", ["C"], {"SOMATIC": True} if som[i] else {}, {"N": smp(ndepths[i], 7), "T": smp(depths[i], 5)}) for i in range(5)]
        out, vf = read_vcf_on(prog, tb, f"paired={paired} min_depth={min_depth} skip_somatic={skip_som}", records, ["N", "T"], ["T", "N" if paired == "by id" else None, min_depth, False, skip_som],
                              header_records=[hrec("PEDIGREE", Derived="T", Original="N")] if paired == "by PEDIGREE" else ())
        if out is None:
            continue
        # which of the five records (starts 100..104) are still in the table: rows really removed (a literal table) or marked as dropped (`__keep__`)
        keep = out.cols.get("__keep__")
        present = {}
        for j, st in enumerate(out.cols["start"].v if "start" in out.cols else []):
            tv = T(st)
            if tv.is_const():
                present[int(tv.cval())] = j
        kept = [(100 + i) in present and (keep is None or keep.v[present[100 + i]] is True) for i in range(5)]
        if [sorted(x) for x in vf.subsets] != [["N", "T"] if paired else ["T"]]:
            kept = f"the reader was restricted to {vf.subsets}"
        dd = ndepths if paired else depths
        want = [(min_depth is None or (dd[i] is not None and dd[i] >= min_depth)) and not (skip_som and som[i]) for i in range(5)]
        okf = all(same(out.cols["alt_freq"].v[present[100 + i]], Fr(5, depths[i])) for i in range(4) if (100 + i) in present) \
            and (not paired or all(same(out.cols["n_alt_freq"].v[present[100 + i]], Fr(7, ndepths[i])) for i in range(4) if (100 + i) in present))
        tb.cell(kept == want and okf, dict(paired=paired, min_depth=min_depth, skip_somatic=skip_som, kept=kept, want=want, depth_column="n_depth" if paired else "depth",
                                           note="a record without depth information counts as depth 0 and is dropped by a depth cut-off"))
    tb.done("read_vcf does not keep exactly the records with enough depth (in the normal, when paired) and without the SOMATIC flag when asked")

    fl = prog.fn("cnvlib.cmdutil.load_het_snps")
    tb2 = Table(chk, "vcf-filters", "load_het_snps: arguments to read, T-variant/N-reference drop, heterozygous selection", fl.loc(), fl.qn)
    for paired, all_somatic in ((True, False), (False, False), (True, True)):
        W.reset()
        model = Model()
        seen = {}
        zy = [Fr(1, 2), 1, Fr(1, 2), 0, Fr(1, 2)]
        nz = [Fr(1, 2), 0, 0, 0, 1]
        if all_somatic:
            zy, nz = [Fr(1, 2), 1, Fr(1, 2), 1, Fr(1, 2)], [0, 0, 0, 0, 0]        # every record is tumour-variant / normal-reference
        rows = [dict(chromosome="chr1", start=i, end=i + 1, ref="A", alt="C", zygosity=zy[i], alt_freq=Term.sym(f"f{i}", 0, 1)) for i in range(5)]
        if paired:
            for i, r in enumerate(rows):
                r["n_zygosity"] = nz[i]
                r["n_alt_freq"] = Term.sym(f"nf{i}", 0, 1)
        if all_somatic:
            # all normal genotypes are 0/0, so zygosity is re-derived from the frequencies (0.25 / 0.75 cut-offs): tumour het, normal reference
            for r in rows:
                r["alt_freq"], r["n_alt_freq"] = Fr(1, 2), Fr(0)
        varr = make_ga("VariantArray", rows, {"sample_id": "T"}, index="any", exact=True)

        def read(it, fname, fmt=None, seen=seen, **kw):
            seen["read"] = (fname, fmt, kw)
            return varr
        model.prims["skgenome.tabio.read"] = read
        it = Interp(prog, model)
        out = tb2.guard(lambda: it.run(fl.qn, ["x.vcf", "T", "N", 33, None, False]), f"paired={paired} all_somatic={all_somatic}")
        if out is None:
            continue
        rd = seen.get("read", (None, None, {}))
        ok = rd[0] == "x.vcf" and rd[1] == "vcf" and rd[2] == dict(sample_id="T", normal_id="N", min_depth=33, skip_somatic=True)
        got = [int(T(x).cval()) for x in out.data.cols["start"].v]
        if all_somatic:
            want = []
        elif paired:
            want = [i for i in range(5) if not (zy[i] != 0 and nz[i] == 0) and nz[i] not in (0, 1)]
        else:
            want = [i for i in range(5) if zy[i] not in (0, 1)]
        tb2.cell(ok and got == want, dict(paired=paired, every_record_somatic_by_genotype=all_somatic, read_args=repr(rd[2]), kept=got, want=want))
    # an explicit zygosity cut-off z: genotypes are re-derived from the frequencies, heterozygous <=> z <= freq < 1 - z
    for z in (Fr(1, 10), Fr(1, 4), Fr(2, 5)):
        W.reset()
        freqs = [Fr(1, 20), Fr(1, 10), Fr(3, 10), Fr(1, 2), Fr(13, 20), Fr(17, 20), Fr(9, 10), Fr(19, 20)]
        rows = [dict(chromosome="chr1", start=i, end=i + 1, ref="A", alt="C", zygosity=Fr(1, 2), alt_freq=f) for i, f in enumerate(freqs)]
        varr = make_ga("VariantArray", rows, {"sample_id": "T"}, index="any", exact=True)
        model = Model()
        model.prims["skgenome.tabio.read"] = lambda it, fname, fmt=None, varr=varr, **kw: varr
        it = Interp(prog, model)
        out = tb2.guard(lambda: it.run(fl.qn, ["x.vcf", "T", None, 20, z, False]), f"zygosity_freq={z}")
        if out is None:
            continue
        got = [int(T(x).cval()) for x in out.data.cols["start"].v]
        want = [i for i, f in enumerate(freqs) if z <= f < 1 - z]
        tb2.cell(got == want, dict(zygosity_freq=str(z), frequencies=[str(f) for f in freqs], kept=got, want=want))
    tb2.done("load_het_snps does not keep exactly the germline-heterozygous records (after the depth / somatic filters; with a frequency cut-off z: z <= freq < 1 - z)")


def d5(chk, prog):
    chk.clause("D5", "sample choice precedence")
    # read_vcf does not return the chosen ids: they are read off the table it builds from a file whose samples carry distinct depths (the tumour's in
    # `depth`, the normal's in `n_depth`, no n_ columns when unpaired) and off the subset the reader was restricted to
    fi = prog.fn(f"{V}.read_vcf")
    tb = Table(chk, "sample-choice", "read_vcf on a one-record file: which sample's fields are read (samples x PEDIGREE header x requested ids)", fi.loc(), fi.qn + "::sample choice")
    DEPTH = {"T": 30, "N": 44, "X": 7, "A": 5}
    cases = []
    for samples in (["T", "N"], ["N", "T", "X"], ["A"]):
        for peds in ([], [("T", "N")]):
            if peds and not {"T", "N"} <= set(samples):
                continue
            for sid in (None, "T", "N", "X", 0, 1):
                for nid in (None, "N"):
                    cases.append((samples, peds, sid, nid))
    for samples, peds, sid, nid in cases:
        W.reset()
        # the PEDIGREE pairs stand in the header, between other header records (and beside a PEDIGREE line without Derived / Original)
        hdr = [hrec("INFO", ID="DP")] + [hrec("PEDIGREE", Derived=t, Original=n) for t, n in peds] + [hrec("PEDIGREE", Name="x"), hrec("contig", ID="chr1")]
        records = [rec(100, "A", ["C"], {}, {k: {"GT": (0, 1), "DP": DEPTH[k], "AD": (DEPTH[k] - 1, 1)} for k in samples})]
        s_eff = samples[sid] if isinstance(sid, int) and sid < len(samples) else sid
        invalid = (isinstance(sid, int) and sid >= len(samples)) or (isinstance(s_eff, str) and s_eff not in samples) or (nid is not None and nid not in samples)
        vf = VcfFile(records, samples, hdr)
        it = Interp(prog, vcf_model(vf))
        try:
            out = it.run(fi.qn, ["x.vcf", sid, nid, None, False, False])
            raised = None
        except Raised as e:
            out, raised = None, str(e)
        except Undecided as e:
            raise AnalysisError(f"C18-D5: {e} for {samples} {peds} {sid} {nid}")
        if invalid:
            tb.cell(raised is not None and "IndexError" in raised, dict(samples=samples, pedigree=peds, sample_id=sid, normal_id=nid, got=repr(out), want="IndexError"))
            continue
        if peds:
            pairs = list(peds)
        elif nid:
            pairs = [(o, nid) for o in samples if o != nid]
        else:
            pairs = [(s, None) for s in samples]
        if s_eff:
            pairs = [(s, n) for s, n in pairs if s == s_eff]
        if not pairs:
            pairs = [(s_eff, None)]
        want = pairs[0]
        got = None
        if out is not None:
            d, nd = cellv(out, "depth", 0), cellv(out, "n_depth", 0)
            who = {v: k for k, v in DEPTH.items()}
            got = (next((k for v, k in who.items() if d is not None and same(d, v)), "?"), None if nd is None else next((k for v, k in who.items() if same(nd, v)), "?"))
        tb.cell(raised is None and got is not None and tuple(got) == tuple(want) and [sorted(x) for x in vf.subsets] == [sorted(x for x in want if x)],
                dict(samples=samples, pedigree=peds, sample_id=sid, normal_id=nid, got=repr(got), reader_restricted_to=vf.subsets, raised=raised, want=want))
    tb.done("the sample / paired normal is not chosen by the documented rules (PEDIGREE Derived / Original pairs, else given ids, else first sample; a requested control comes back alone)")


def d6(chk, prog):
    chk.clause("D6", "TumorBoost values are stored back on the variants' own index (both store sites)")
    chk.rule("index-alignment", "a Series built by pd.Series(<array>) carries a fresh 0..n-1 index; storing it into a column of a filtered table (heterozygous subset) aligns by "
             "label: the values land on other variants or become NaN")
    fl = prog.fn("cnvlib.cmdutil.load_het_snps")
    tb = Table(chk, "index-alignment", "tumor_boost results stored into a filtered variant table", fl.loc(), f"{VA}.VariantArray.tumor_boost")
    rows = [dict(chromosome="chr1", start=i, end=i + 1, ref="A", alt="C", zygosity=Fr(1, 2), n_zygosity=Fr(1, 2), alt_freq=Term.sym(f"t{i}", 0, 1), n_alt_freq=Term.sym(f"n{i}", 0, 1)) for i in range(3)]
    pts = [{f"t{i}": Fr(1, 5), f"n{i}": Fr(1, 2)} for i in range(3)]
    half = Term.const(Fr(1, 2))
    want = [t_div(t_mul(half, r["alt_freq"]), r["n_alt_freq"]) for r in rows]
    # site 1: load_het_snps(tumor_boost=True)
    W.reset()
    model = Model()
    varr = make_ga("VariantArray", rows, {"sample_id": "T"}, index="any")
    model.prims["skgenome.tabio.read"] = lambda it, *a, **k: varr
    it = Interp(prog, model)
    old = CTX.atoms
    CTX.atoms = atoms_at(pts)
    try:
        out = tb.guard(lambda: it.run(fl.qn, ["x.vcf", "T", "N", 20, None, True]), "load_het_snps(tumor_boost=True)")
    finally:
        CTX.atoms = old
    if out is not None:
        tb.cell(all(same(a, b) for a, b in zip(out.data.cols["alt_freq"].v, want)), dict(site="load_het_snps", alt_freq=[repr(x) for x in out.data.cols["alt_freq"].v], want=[repr(x) for x in want]))
    # site 2: baf_by_ranges(tumor_boost=True)
    W.reset()
    model = Model()
    seen = {}

    def into_ranges(it, obj, other, column, default, summary_func=None, seen=seen):
        seen["alt_freq"] = list(obj.data.cols[column].v)
        return "BAFS"
    model.method_prims["into_ranges"] = into_ranges
    varr = make_ga("VariantArray", rows, {"sample_id": "T"}, index="any")
    it = Interp(prog, model)
    old = CTX.atoms
    CTX.atoms = atoms_at(pts)
    try:
        out = tb.guard(lambda: it.run_method(varr, "baf_by_ranges", ["RANGES"], {"tumor_boost": True}), "baf_by_ranges(tumor_boost=True)")
    finally:
        CTX.atoms = old
    if out is not None:
        got = seen.get("alt_freq", [])
        tb.cell(out == "BAFS" and len(got) == 3 and all(same(a, b) for a, b in zip(got, want)), dict(site="baf_by_ranges", alt_freq=[repr(x) for x in got], want=[repr(x) for x in want]))
    tb.done("TumorBoost frequencies are not stored on their own variants")


def d7(chk, prog):
    chk.clause("D7", "call: a segment's BAF is taken from the variants over the final segments -- after the ci / sem merges, before the purity rescaling and the allelic split")
    fi = prog.fn("cnvlib.call.do_call")
    tb = Table(chk, "baf-per-segment", "do_call with variants: the table baf_by_ranges sees and the baf column that results (filters none / ci / sem / ci+sem+cn)", fi.loc(), fi.qn)
    for filters in (None, ["ci"], ["sem"], ["ci", "sem", "cn"], ["cn"]):
        W.reset()
        model = Model()
        seen = {}

        def stage(tag):
            def f(it, arr, tag=tag):
                out = GA(arr.cls, arr.data.copy(), arr.data.n, dict(arr.meta, stages=arr.meta.get("stages", ()) + (tag,)))
                return out
            return f
        for nm in ("ci", "sem", "cn", "ampdel"):
            model.prims[f"cnvlib.segfilters.{nm}"] = stage(nm)
        rows = [dict(chromosome="chr1", start=Term.sym(f"s{i}"), end=Term.sym(f"e{i}"), gene="g", log2=OrderVal(f"v{i}", 10 * i - 5, None), probes=5, weight=1) for i in range(3)]
        g = make_ga("CopyNumArray", rows, {"sample_id": "S"}, index="any", labels=[7, 3, 11])
        thr = [OrderVal(f"t{i}", 10 * i, None) for i in range(3)]
        bafs = [Term.sym(f"baf{i}", 0, 1) for i in range(3)]

        # the variants: a real VariantArray whose baf_by_ranges body is interpreted; into_ranges is summarised by its contract
        # (one value per range of `other`, as a pd.Series on a fresh 0..n-1 index -- C07-D4)
        variants = make_ga("VariantArray", [dict(chromosome="chr1", start=5 + 10 * i, end=6 + 10 * i, ref="A", alt="C", zygosity=Fr(1, 2), alt_freq=Term.sym(f"af{i}", 0, 1)) for i in range(3)],
                           {"sample_id": "S"})
        model.method_prims["heterozygous"] = lambda it, v, *a, **k: v

        def baf_values(it, v, other, column, default, summary_func=None, seen=seen):
            seen["stages"] = other.meta.get("stages", ())
            seen["cols"] = [c for c in other.data.cols if not c.startswith("__")]
            seen["column"] = column
            return list(bafs)
        # labelled the way the real into_ranges labels its result (the segment table here has index labels 7, 3, 11)
        model.method_prims["into_ranges"] = into_ranges_stub(prog, baf_values)
        it = Interp(prog, model)
        out = tb.guard(lambda: it.run(fi.qn, [g, variants, "threshold", 2, None, False, False, None, filters, thr]), f"filters={filters}")
        if out is None:
            continue
        early = tuple(f for f in ("ci", "sem") if filters and f in filters)
        ok = seen.get("stages") == early and "cn" not in seen.get("cols", ["cn"])
        ok = ok and "baf" in out.data.cols and all(same(a, b) for a, b in zip(out.data.cols["baf"].v, bafs))
        ok = ok and out.meta.get("stages", ()) == tuple(early) + tuple(f for f in (filters or []) if f not in early)
        tb.cell(ok, dict(filters=filters, table_seen_by_baf_by_ranges=dict(stages=seen.get("stages"), columns=seen.get("cols")), result_stages=out.meta.get("stages", ()),
                         baf=[repr(x) for x in out.data.cols["baf"].v] if "baf" in out.data.cols else None))
    tb.done("the BAF column is not computed over the segments that are finally reported (e.g. before segments are merged by the ci / sem filters)")
    # purity rescaling of the BAF: whenever a purity < 1 is given -- for every calling method, `none` included -- and only then
    tb2 = Table(chk, "baf-per-segment", "do_call with variants: baf column x calling method {threshold, clonal, none} x purity {absent, 1, 1/2}: rescale_baf(purity, observed) iff purity < 1", fi.loc(), fi.qn + "::purity rescaling")
    for method, purity in itertools.product(["threshold", "clonal", "none"], [None, 1, Fr(1, 2)]):
        W.reset()
        model = par_model()
        n = 3
        bafs = [Term.sym(f"baf{i}", 0, 1) for i in range(n)]
        resc = [Term.sym(f"rescaled{i}", 0, 1) for i in range(n)]
        seen = {}

        def rescale(it, pur, col, seen=seen, resc=resc):
            seen["rescale_args"] = (pur, list(col.v) if isinstance(col, Vec) else col)
            return Vec(resc, aligned=getattr(col, "aligned", True))
        model.prims["cnvlib.call.rescale_baf"] = rescale
        for nm in ("absolute_threshold", "absolute_clonal", "absolute_pure"):
            model.prims[f"cnvlib.call.{nm}"] = lambda it, cn, *a, nm=nm, **k: Vec([Term.sym(f"{nm}{i}", 0, INF, True) for i in range(n)])
        model.prims["cnvlib.call.log2_ratios"] = lambda it, cn, *a, **k: Vec([Term.sym(f"L{i}") for i in range(n)])
        rows = [dict(chromosome="chr1", start=Term.sym(f"s{i}"), end=Term.sym(f"e{i}"), gene="g", log2=Term.sym(f"v{i}"), probes=5, weight=1) for i in range(n)]
        g = make_ga("CopyNumArray", rows, {"_classes": ["auto"] * n, "sample_id": "S"}, index="any")
        variants = make_ga("VariantArray", [dict(chromosome="chr1", start=5, end=6, ref="A", alt="C", zygosity=Fr(1, 2), alt_freq=Term.sym("af", 0, 1))], {"sample_id": "S"})
        model.method_prims["baf_by_ranges"] = lambda it, v, other, *a, **k: Vec(bafs, aligned="any")
        it = Interp(prog, model)
        old = CTX.atoms
        CTX.atoms = lambda d, op: True
        try:
            out = tb2.guard(lambda: it.run(fi.qn, [g, variants, method, 2, purity, False, False, None, None]), f"method={method} purity={purity}")
        finally:
            CTX.atoms = old
        if out is None:
            continue
        want = resc if (purity is not None and purity < 1) else bafs
        got = out.data.cols["baf"].v if "baf" in out.data.cols else None
        ok = got is not None and all(same(a, b) for a, b in zip(got, want))
        if purity is not None and purity < 1:
            ra = seen.get("rescale_args")
            ok = ok and ra is not None and same(ra[0], purity) and all(same(a, b) for a, b in zip(ra[1], bafs))
        else:
            ok = ok and "rescale_args" not in seen
        tb2.cell(ok, dict(method=method, purity=str(purity), baf=[repr(x) for x in got] if got else None, want=[repr(x) for x in want]))
    tb2.done("the segment BAFs are not purity-rescaled exactly when a purity < 1 is given (all calling methods alike)")


def run(chk):
    prog = chk.prog
    chk.trust("Python grammar via ast", "pysam: record.start is 0-based (POS - 1), GT is a tuple of allele indices", "pandas aligns column stores / assign() of a Series by index label",
              "np.nonzero(mask)[0] / ndarray.take select the True positions")
    d1(chk, prog)
    d2(chk, prog)
    d3(chk, prog)
    d3b(chk, prog)
    d4(chk, prog)
    d5(chk, prog)
    d6(chk, prog)
    d7(chk, prog)
    chk.clause("D8", "a segment's variants are looked up on the segment's own chromosome: the pairing of by_shared_chroms (C07-D6 rule; a one-chromosome segment table against a genome-wide VCF)")
    from . import C07
    C07.d6(chk, prog)
    chk.clause("CLI", "the `call` / `segment` command lines: -v, -i, -n, --min-variant-depth, -z reach load_het_snps as given")
    from .. import cliglue
    cliglue.check_call(chk, prog)
    cliglue.check_segment(chk, prog)


_V = "skgenome/tabio/vcfio.py"
_Y = "cnvlib/vary.py"
MUTANTS = [
    dict(name="regress: into_ranges returns its values on a fresh 0..n-1 index (pre-fix code)", edits=[("skgenome/intersect.py", "        return pd.Series([default] * len(dest), index=dest.index)", "        return pd.Series([default] * len(dest))"), ("skgenome/intersect.py", "    return pd.Series(result, index=dest.index)", "    return pd.Series(result)")]),
    dict(name="twin: mirrored BAF through np.where", expect="silent", file="cnvlib/vary.py", old="    if above_half:\n        return 0.5 + shift\n    return 0.5 - shift", new="    return 0.5 + shift if above_half else 0.5 - shift"),
    dict(name="regress: tumor_boost returned on a fresh index", file=_Y, old='        return self.as_series(_tumor_boost(self["alt_freq"].values, self["n_alt_freq"].values).values)', new='        return _tumor_boost(self["alt_freq"].values, self["n_alt_freq"].values)'),
    dict(name="start from record.pos", file=_V, old="        start = record.start\n", new="        start = record.pos\n"),
    dict(name="end ignores INFO/END", file=_V, old='    if "END" in info:\n        # Structural variant\n        return info["END"]\n', new=""),
    dict(name="NON_REF placeholder kept", file=_V, old='                if alt == "<NON_REF>":\n                    # gVCF placeholder -- not a real allele\n                    continue\n', new=""),
    dict(name="hom-ref zygosity 1", file=_V, old="    elif gts.pop() == 0:\n        zygosity = 0.0", new="    elif gts.pop() == 0:\n        zygosity = 1.0"),
    dict(name="depth prefers INFO/DP over AD", file=_V, old='    elif "AD" in sample and isinstance(sample["AD"], tuple):\n        depth = _safesum(sample["AD"])\n    elif "DP" in record.info:\n        depth = record.info["DP"]', new='    elif "DP" in record.info:\n        depth = record.info["DP"]\n    elif "AD" in sample and isinstance(sample["AD"], tuple):\n        depth = _safesum(sample["AD"])'),
    dict(name="alt count from AD[0]", file=_V, old='                alt_count = sample["AD"][1]', new='                alt_count = sample["AD"][0]'),
    dict(name="depth filter strict", file=_V, old="            idx_depth = table[dkey] >= min_depth", new="            idx_depth = table[dkey] > min_depth"),
    dict(name="depth filter on the tumour when paired", file=_V, old='            dkey = "n_depth" if "n_depth" in table.columns else "depth"', new='            dkey = "depth"'),
    dict(name="somatic kept", file=_V, old="        table = table[~idx_som]", new="        table = table[idx_som]"),
    dict(name="alt_freq over alt_count", file=_V, old='    table["alt_freq"] = table["alt_count"] / table["depth"]', new='    table["alt_freq"] = table["depth"] / table["alt_count"]'),
    dict(name="seeded C18a: requested control returns the tumour pair", file=_V, old="        pairs = [(s, n) for s, n in pairs if s == sample_id]", new="        pairs = [(s, n) for s, n in pairs if sample_id in (s, n)]"),
    dict(name="pedigree ignored when ids are given", file=_V, old="    if peds:\n        # Trust the PEDIGREE tag\n        pairs = peds\n    elif normal_id:", new="    if peds and not normal_id:\n        # Trust the PEDIGREE tag\n        pairs = peds\n    elif normal_id:"),
    dict(name="seeded C18e: explicit above_half=False falls through to the majority rule", file=_Y, old="    if above_half is None:\n        above_half = vals.median() > 0.5\n    if above_half:", new="    if above_half or vals.median() > 0.5:"),
    dict(name="seeded C18f: BAF per segment computed before the ci / sem merges", edits=[("cnvlib/call.py", "    outarr = cnarr.copy()\n    if filters:", "    outarr = cnarr.copy()\n    if variants:\n        outarr[\"baf\"] = variants.baf_by_ranges(outarr)\n    if filters:"), ("cnvlib/call.py", "                filters.remove(filt)\n\n    if variants:\n        outarr[\"baf\"] = variants.baf_by_ranges(outarr)\n", "                filters.remove(filt)\n")]),
    dict(name="mirrored BAF wrong side", file=_Y, old="    if above_half:\n        return 0.5 + shift\n    return 0.5 - shift", new="    if above_half:\n        return 0.5 - shift\n    return 0.5 + shift"),
    dict(name="tumor boost branches swapped", file=_Y, old="    lt_mask = t_freqs < n_freqs", new="    lt_mask = t_freqs > n_freqs"),
    dict(name="load_het_snps keeps somatic", file="cnvlib/cmdutil.py", old="        skip_somatic=True,\n", new="        skip_somatic=False,\n"),
    dict(name="load_het_snps: somatic genotype drop inverted", file="cnvlib/cmdutil.py", old="        varr = varr[~somatic_idx]", new="        varr = varr[somatic_idx]"),
    dict(name="heterozygous uses the tumour zygosity when paired", file=_Y, old='            zygosity = self["n_zygosity" if "n_zygosity" in self else "zygosity"]\n            het_idx = (zygosity != 0.0) & (zygosity != 1.0)\n            if het_idx.any():', new='            zygosity = self["zygosity"]\n            het_idx = (zygosity != 0.0) & (zygosity != 1.0)\n            if het_idx.any():'),
    dict(name="seeded C18b: zygosity buffer shared between tumour and normal", edits=[(_Y, "            if zyg_key in self:\n                zyg = np.repeat(0.5, len(self))\n", "            if zyg_key in self:\n"),
                                                                                      (_Y, "        for freq_key, zyg_key in (\n", "        zyg = np.repeat(0.5, len(self))\n        for freq_key, zyg_key in (\n")]),
    dict(name="zygosity: hom threshold strict", file=_Y, old="                zyg[vals >= hom_freq] = 1.0", new="                zyg[vals > hom_freq] = 1.0"),
    dict(name="twin: depth filter operands swapped", file=_V, old="            idx_depth = table[dkey] >= min_depth", new="            idx_depth = min_depth <= table[dkey]", expect="silent"),
]
