"""C09 -- coverage reports mean per-base depth of the counted reads in every bin.
D1 read filter, D2 in-bin bases / depth / log2 (count and pileup paths), D3 -Q reaches bedcov iff min_mapq > 0, D4 bedcov columns and row
identity, D5 schedule independence (ordered fan-out, same worker serial / parallel, chunker loses no line)."""
import ast
import itertools
from fractions import Fraction as Fr

from ..abstools import *
from ..absint import CTX, GenList
from ..absval import Raised, Closure
from ..core import AnalysisError, own_nodes, norm, parents, stmt_of, dominates
from .. import rules
from . import C08

LEVEL_TEXT = ('static analysis: (D1) region_depth_count interpreted on one read per combination of the flags duplicate / secondary / unmapped / '
              'QC-fail / supplementary x mapping quality below / at / above the cut-off (96 cells): a read is counted <=> none of the first four '
              'flags and mapq >= min_mapq (supplementary reads are counted); (D2) aligned positions count <=> start <= p < end (a gap inside a '
              'spliced read is not counted); depth = bases / (end - start) when end > start else 0; log2 = log2(depth) or -20 (NULL_LOG2_COVERAGE'
              ' from params.py) when depth is 0; the pileup path gives depth = basecount / span on rows with span > 0 and 0 elsewhere, log2 = -20'
              " <=> depth = 0, gene filled with '-'; (D3) bedcov passes -Q <min_mapq> to samtools <=> min_mapq > 0 (and --reference iff a FASTA "
              'is given), raising on empty output; (D4) detect_bedcov_columns maps 3 / 4 / more tab-separated input columns to names with '
              'basecount last, fewer is an error; the count branch of interval_coverages, interpreted, turns each (chrom, start, end, gene, log2,'
              ' depth) tuple into a row under those column names; a bin running past the end of its contig is still divided by its own length '
              '(BAM stub with a contig length); (D5) both fan-outs use Executor.map; interval_coverages_count and interval_coverages_pileup are '
              'interpreted for 1 and 3 processes with the pool stubbed (map = apply in submission order): every bin reaches region_depth_count / '
              "every chunk reaches bedcov in file order with the caller's min_mapq, alignment file and reference, the yielded rows are the "
              "worker's (a bin of a read-less contig may be answered without a fetch only with depth 0 / log2 -20), and the pileup rows come back"
              ' in file order; BED names reach the count path whole (C08 rule); pileup rows keep their own names also when the regions file is '
              'not in genomic order; (D7) after ensure_bam_index the index htslib opens first (X.bam.bai before X.bai) is never older than the '
              'alignment file (file model with modification times); to_chunks -- interpreted exhaustively for chunk sizes 1..3 and every line '
              'count 0..3c+1, with comment lines -- yields every non-comment line exactly once, in order, in closed files of at most chunk_size '
              'lines. (D8) ensure_bam_sorted on literal read lists: coordinate-sorted files of one to three contigs are accepted (positions '
              'restarting at a contig switch, ties), disorder within a contig inside the inspected span is refused, by name likewise. D5b has one'
              ' interval listed twice under two names (two rows, each with its own name); the regions file is read as the format it is in '
              '(C08-D3c rule on literal files). (CLI) the `coverage` command line(s), through a model of argparse built from the declarations in '
              'commands.py and the real _cmd_ body interpreted with readers, library step and writers stubbed: BAM and regions in their roles, '
              '-c, -q, -p, -f reach do_coverage as given; the default output name is <bam>.(anti)targetcoverage.cnn. Does not decide that the '
              "number of aligned bases is what samtools reports, nor equality of the two algorithms on real reads (bedcov's own flag filter is "
              'trusted).')
TECHNIQUE = ('abstract interpretation of the read filter / depth arithmetic over finite flag and order domains; registry of the samtools '
             'arguments; ordered fan-out rule; interpretation of the serial and parallel drivers with a pool stub; small-scope exhaustive '
             'interpretation of the chunker')

COV = "cnvlib.coverage"
FLAGBITS = {"is_duplicate": 0x400, "is_secondary": 0x100, "is_unmapped": 0x4, "is_qcfail": 0x200, "is_supplementary": 0x800}


class Bam:
    """an alignment file over one contig of `length` bases: fetch(reference, start, end) hands out the reads with an aligned base in [start, end)"""

    def __init__(self, reads, length=10 ** 9):
        self.reads = reads
        self.length = length
        self.fetch_args = []
        self.references = ("chrQ",)
        self.lengths = (length,)

    def fetch(self, reference=None, start=None, end=None, **k):
        self.fetch_args.append((reference, start, end))
        if start is None or end is None or not all(isinstance(x, int) for x in (start, end)):
            return list(self.reads)
        return [r for r in self.reads if any(start <= p < end for p in r._d["positions"])]

    def get_reference_length(self, reference):
        return self.length


def read(flags, mapq, positions):
    d = dict(flags)
    d["flag"] = sum(bit for k, bit in FLAGBITS.items() if flags.get(k))
    d["mapq"] = mapq
    d["mapping_quality"] = mapq
    d["positions"] = list(positions)
    d["get_reference_positions"] = lambda *a, **k: list(positions)
    d["reference_start"] = positions[0]
    d["reference_end"] = positions[-1] + 1
    return Row(d)


def d1(chk, prog):
    chk.clause("D1", "counted reads: not duplicate / secondary / unmapped / QC-fail and mapq >= min_mapq")
    fi = prog.fn(f"{COV}.region_depth_count")
    tb = Table(chk, "read-filter", "region_depth_count: one read per flag combination x mapq position", fi.loc(), fi.qn)
    names = list(FLAGBITS)
    for bits in itertools.product([False, True], repeat=5):
        for mq, label in ((9, "below"), (10, "equal"), (11, "above")):
            W.reset()
            flags = dict(zip(names, bits))
            it = Interp(prog)
            bam = Bam([read(flags, mq, [100, 101, 102])])
            out = tb.guard(lambda: it.run(fi.qn, [bam, "chr1", 100, 200, "G", 10]), f"{flags} mapq {label}")
            if out is None:
                continue
            want = not (flags["is_duplicate"] or flags["is_secondary"] or flags["is_unmapped"] or flags["is_qcfail"]) and mq >= 10
            count, row = out
            tb.cell(same(count, 1 if want else 0) and same(row[5], Fr(3, 100) if want else 0), dict(flags={k: v for k, v in flags.items() if v}, mapq=label, count=repr(count), depth=repr(row[5]), want_counted=want))
    tb.done("the set of counted reads is not (not duplicate, secondary, unmapped, QC-fail) and mapq >= cut-off")


def d2(chk, prog):
    chk.clause("D2", "in-bin bases, depth = bases / length, log2 or -20; pileup path likewise")
    pm = prog.module("cnvlib.params")
    null = ast.literal_eval(pm.assigns["NULL_LOG2_COVERAGE"])
    chk.decide(null == -20.0, "depth-form", f"params.NULL_LOG2_COVERAGE = {null}", "cnvlib.params::NULL_LOG2_COVERAGE", "cnvlib/params.py", f"stated -20, found {null}")
    fi = prog.fn(f"{COV}.region_depth_count")
    tb = Table(chk, "depth-form", "region_depth_count: positions in [start, end), depth, log2, row identity", fi.loc(), fi.qn)
    ok_flags = {k: False for k in FLAGBITS}
    cases = [("positions straddling both edges", 100, 200, [[98, 99, 100, 101], [198, 199, 200, 201]], 4),
             ("no read", 100, 200, [], 0), ("zero-width bin", 100, 100, [[99, 100, 101]], None), ("reversed bin", 200, 100, [[150]], None),
             ("one base", 100, 101, [[100], [100, 101]], 2),
             ("spliced / deleted-gap read: the gap is not aligned", 100, 200, [[110, 111, 112, 170, 171], [98, 99, 150, 151, 199, 200]], 8),
             # a bin from a generic BED file that runs over the end of a 150-base contig: still divided by the bin's own length
             ("bin running past the contig end", 100, 200, [[140, 141, 142, 143, 144, 145, 146, 147, 148, 149], [98, 99, 100, 101]], 12)]
    for label, s, e, poslists, bases in cases:
        W.reset()
        it = Interp(prog)
        bam = Bam([read(ok_flags, 60, p) for p in poslists], 150 if "contig end" in label else 10 ** 9)
        out = tb.guard(lambda: it.run(fi.qn, [bam, "chrQ", s, e, "GENE", 0]), label)
        if out is None:
            continue
        count, row = out
        if e > s:
            depth = Fr(bases, e - s)
        else:
            depth = 0
        lg = f_log2(depth) if depth else -20
        ok = len(row) == 6 and row[0] == "chrQ" and same(row[1], s) and same(row[2], e) and row[3] == "GENE" and same(row[5], depth) and same(row[4], lg) and same(count, sum(1 for pl in poslists if any(s <= p_ < e for p_ in pl)))
        # the reads are fetched once, over (at least) the part of the bin that lies on the contig
        ok = ok and len(bam.fetch_args) == 1 and bam.fetch_args[0][0] == "chrQ" and (e <= s or (bam.fetch_args[0][1] <= s and bam.fetch_args[0][2] >= min(e, bam.length)))
        tb.cell(ok, dict(case=label, start=s, end=e, row=[repr(x) for x in row], want_depth=str(depth), want_log2=repr(lg), fetch=bam.fetch_args))
    tb.done("per-bin depth by read counting is not (aligned bases inside the bin) / bin length with log2 -20 for empty bins")

    fp = prog.fn(f"{COV}.interval_coverages_pileup")
    tb2 = Table(chk, "depth-form", "interval_coverages_pileup post-processing (span > 0 / = 0 / < 0; basecount 0 / positive; gene present / missing)", fp.loc(), fp.qn)
    for has_gene in (True, False):
        W.reset()
        rows, pts = [], []
        spec = [("pos", "pos"), ("pos", "zero"), ("zero", "pos"), ("neg", "pos")]
        for k, (span, bc) in enumerate(spec):
            s = Term.sym(f"s{k}", 0, INF, True)
            sp = {"pos": Term.sym(f"w{k}", 1, INF, True, positive=True), "zero": Term.const(0), "neg": Term.sym(f"w{k}", -INF, -1, True)}[span]
            b = Term.sym(f"b{k}", 1, INF, True, positive=True) if bc == "pos" else Term.const(0)
            r = dict(chromosome="chr1", start=s, end=t_add(s, sp), basecount=b)
            if has_gene:
                r["gene"] = None if k == 1 else f"g{k}"
            rows.append(r)
            pts.append({f"s{k}": 1000, f"w{k}": {"pos": 50, "zero": 0, "neg": -50}[span], f"b{k}": 700})
        df = DF({c: Vec([r[c] for r in rows], aligned=True) for c in rows[0]}, len(rows))
        model = Model()
        model.prims[f"{COV}.bedcov"] = lambda it, *a, **k: df
        it = Interp(prog, model)
        old = CTX.atoms
        CTX.atoms = atoms_at(pts)
        try:
            out = tb2.guard(lambda: it.run(fp.qn, ["x.bed", "x.bam", 0, 1]), f"gene={has_gene}")
        finally:
            CTX.atoms = old
        if out is None:
            continue
        c = out.cols
        for k, (span, bc) in enumerate(spec):
            if span == "pos" and bc == "pos":
                wd = t_div(rows[k]["basecount"], t_sub(rows[k]["end"], rows[k]["start"]))
                wl = f_log2(wd)
            else:
                wd, wl = 0, -20
            gd, gl = c["depth"].v[k], c["log2"].v[k]
            okk = same(gd, wd) and same(gl, wl) and same(c["start"].v[k], rows[k]["start"]) and same(c["end"].v[k], rows[k]["end"])
            wg = (rows[k]["gene"] if has_gene and rows[k]["gene"] is not None else "-")
            okk = okk and c["gene"].v[k] == wg
            tb2.cell(okk, dict(span=span, basecount=bc, gene_column=has_gene, depth=repr(gd), log2=repr(gl), gene=repr(c["gene"].v[k]), want=(repr(wd), repr(wl), wg)))
    tb2.done("pileup depth is not basecount / span (0 and log2 -20 where the span is not positive or nothing was counted)")


def d3(chk, prog):
    chk.clause("D3", "-Q reaches samtools bedcov iff min_mapq > 0; empty output raises")
    fi = prog.fn(f"{COV}.bedcov")
    tb = Table(chk, "bedcov-arguments", "bedcov command line", fi.loc(), fi.qn)
    for mq, fasta in itertools.product([None, 0, 1, 30], [None, "ref.fa"]):
        W.reset()
        model = Model()
        seen = {}

        def pysam_bedcov(it, *cmd, seen=seen, **kw):
            seen["cmd"], seen["kw"] = list(cmd), kw
            return "chr1\t0\t10\tG\t55\n"
        model.ext["pysam.bedcov"] = pysam_bedcov
        model.ext["pd.read_csv"] = lambda it, src, **kw: ("TABLE", list(kw.get("names")), list(kw.get("usecols")))
        model.ext["io.StringIO"] = lambda it, s: s
        it = Interp(prog, model)
        out = tb.guard(lambda: it.run(fi.qn, ["r.bed", "s.bam", mq, fasta]), f"min_mapq={mq} fasta={fasta}")
        if out is None:
            continue
        want = ["r.bed", "s.bam"] + (["-Q", str(mq)] if mq else []) + (["--reference", fasta] if fasta else [])
        tb.cell(seen.get("cmd") == want and out[1] == ["chromosome", "start", "end", "gene", "basecount"], dict(min_mapq=mq, fasta=fasta, cmd=seen.get("cmd"), want=want, columns=out[1] if out else None))
    W.reset()
    model = Model()
    model.ext["pysam.bedcov"] = lambda it, *cmd, **kw: ""
    it = Interp(prog, model)
    try:
        it.run(fi.qn, ["r.bed", "s.bam", 0, None])
        tb.cell(False, dict(case="empty samtools output", raised=None))
    except Raised as e:
        tb.cell("ValueError" in str(e), dict(case="empty samtools output", raised=str(e)[:60]))
    except Undecided as e:
        raise AnalysisError(f"C09-D3: {e}")
    tb.done("the mapping-quality cut-off does not reach samtools bedcov as -Q exactly when it is positive")


def d4(chk, prog):
    chk.clause("D4", "bedcov columns: 3 / 4 / more input columns, basecount last; fewer raises")
    fi = prog.fn(f"{COV}.detect_bedcov_columns")
    tb = Table(chk, "bedcov-columns", "detect_bedcov_columns by tab count", fi.loc(), fi.qn)
    for ncol in (3, 4, 5, 6, 9):
        W.reset()
        it = Interp(prog)
        line = "\t".join(["x"] * ncol + ["77"]) + "\nnext\tline\n"
        out = tb.guard(lambda: it.run(fi.qn, [line]), f"{ncol} columns")
        if out is None:
            continue
        want = ["chromosome", "start", "end"] + (["gene"] if ncol >= 4 else []) + [f"_{i}" for i in range(1, ncol - 3)] + ["basecount"]
        tb.cell(list(out) == want, dict(input_columns=ncol, got=list(out), want=want))
    for ncol in (1, 2):
        W.reset()
        it = Interp(prog)
        line = "\t".join(["x"] * ncol + ["77"]) + "\n"
        try:
            out = it.run(fi.qn, [line])
            tb.cell(False, dict(input_columns=ncol, got=repr(out), want="error"))
        except Raised:
            tb.cell(True, dict(input_columns=ncol))
        except Undecided as e:
            raise AnalysisError(f"C09-D4: {e}")
    tb.done("bedcov output columns are misnamed: the base count must be the last column and the bin's own columns keep their names")
    # count path: the (count, row) pairs of region_depth_count become the table -- each field of the row tuple under its own column
    # (that every bin reaches region_depth_count with its own coordinates and name is decided in D5b; this used to be a match on the source text)
    fi2 = prog.fn(f"{COV}.interval_coverages")
    W.reset()
    model = Model()
    Lg, Dp = Term.sym("LOG2"), Term.sym("DEPTH", 0, INF)
    model.prims[f"{COV}.interval_coverages_count"] = lambda it, *a, **k: [[3, ("chrQ", 5, 9, "GENE A", Lg, Dp)], [0, ("chrR", 20, 30, "H", -20, 0)]]
    model.prims["cnvlib.samutil.bam_total_reads"] = lambda it, *a, **k: 0
    model.prims["cnvlib.core.fbase"] = lambda it, f: "S"

    class Handle:
        def abs_iter(self):
            return ["chrQ\t5\t9\tGENE A\n"]
    model.builtins["open"] = lambda *a, **k: Handle()
    clock = [0]

    def now(it):
        clock[0] += 2
        return Fr(clock[0])
    model.ext["time.time"] = now
    it = Interp(prog, model)
    try:
        out = it.run(fi2.qn, ["b.bed", "S.bam", True, 0, 1, None])
    except Undecided as e:
        raise AnalysisError(f"C09-D4 count rows: {e}")
    except Raised as e:
        out = str(e)
    c = out.data.cols if isinstance(out, GA) else {}
    ok = isinstance(out, GA) and [k for k in c if not k.startswith("__")] == ["chromosome", "start", "end", "gene", "log2", "depth"] and list(c["chromosome"].v) == ["chrQ", "chrR"] \
        and [int(T(x).cval()) for x in c["start"].v] == [5, 20] and [int(T(x).cval()) for x in c["end"].v] == [9, 30] and list(c["gene"].v) == ["GENE A", "H"] and same(c["log2"].v[0], Lg) and same(c["depth"].v[0], Dp) \
        and out.meta.get("sample_id") == "S"
    chk.decide(ok, "bedcov-columns", "count path: each (chrom, start, end, gene, log2, depth) tuple becomes a row under those column names, sample id from the BAM name", f"{fi2.qn}::from_rows columns", fi2.loc(),
               f"the rows built by region_depth_count do not line up with the table's columns: {({k: [repr(x) for x in v.v] for k, v in c.items()} if c else out)}")


def d4_pileup_driver(chk, prog):
    """the pileup path of the driver on an alignment file without a single read: the table of the bins (depth 0, log2 at the floor) still comes back"""
    fi2 = prog.fn(f"{COV}.interval_coverages")
    tb = Table(chk, "bedcov-columns", "interval_coverages, pileup path: an alignment file with reads / without a single read still gives the bins' table (the read length only feeds the log line)", fi2.loc(), fi2.qn + "::pileup driver")
    for n_reads in (3, 0):
        W.reset()
        model = Model()
        rows = [("chrQ", 5, 9, "GENE A", 0 if n_reads == 0 else 40), ("chrR", 20, 30, "H", 0)]

        def pileup(it, *a, rows=rows, **k):
            d = DF({"chromosome": Vec([r[0] for r in rows], aligned=True), "start": Vec([r[1] for r in rows], aligned=True), "end": Vec([r[2] for r in rows], aligned=True),
                    "gene": Vec([r[3] for r in rows], aligned=True), "basecount": Vec([r[4] for r in rows], aligned=True),
                    "depth": Vec([Fr(r[4], r[2] - r[1]) for r in rows], aligned=True), "log2": Vec([Term.sym(f"LG{i}") for i in range(len(rows))], aligned=True)}, len(rows))
            d.exact = True
            return d
        model.prims[f"{COV}.interval_coverages_pileup"] = pileup
        model.prims["cnvlib.samutil.bam_total_reads"] = lambda it, *a, **k: n_reads
        model.prims["cnvlib.core.fbase"] = lambda it, f: "S"

        class Reads:
            def abs_iter(self):
                return [Row({"query_length": 100}) for _ in range(n_reads)]

            def close(self):
                return None

            def seek(self, *a):
                return None
        model.ext["pysam.AlignmentFile"] = lambda it, *a, **k: Reads()

        class Handle:
            def abs_iter(self):
                return ["chrQ\t5\t9\tGENE A\n", "chrR\t20\t30\tH\n"]
        model.builtins["open"] = lambda *a, **k: Handle()
        clock = [0]

        def now(it):
            clock[0] += 2
            return Fr(clock[0])
        model.ext["time.time"] = now
        it = Interp(prog, model)
        try:
            out = it.run(fi2.qn, ["b.bed", "S.bam", False, 0, 1, None])
            raised = None
        except Undecided as e:
            tb.undecided.append(f"{n_reads} reads: {e}")
            continue
        except Raised as e:
            out, raised = None, str(e)
        c = out.data.cols if isinstance(out, GA) else {}
        ok = raised is None and isinstance(out, GA) and "basecount" not in c and list(c.get("chromosome", Vec([])).v) == ["chrQ", "chrR"] and out.meta.get("sample_id") == "S" \
            and all(same(a, Fr(r[4], r[2] - r[1])) for a, r in zip(c["depth"].v, rows))
        tb.cell(ok, dict(reads_in_file=n_reads, raised=raised, columns=[k for k in c if not k.startswith("__")]))
    tb.done("the pileup path gives no table (or a table with other columns) for an alignment file -- also one without any read")


class FileStub:
    def __init__(self, log, name):
        self.log, self.name, self.lines, self.closed = log, name, [], False

    def write(self, s):
        if self.closed:
            raise Raised("ValueError", "I/O operation on closed file")
        self.lines.append(s)

    def close(self):
        self.closed = True

    def flush(self):
        pass


def d5(chk, prog):
    chk.clause("D5", "schedule independence: Executor.map, same worker serial / parallel, ordered concatenation, chunker loses no line")
    sites, banned = rules.fanout_sites(prog)
    here = [(fi, n) for fi, n in sites if fi.mod == COV]
    chk.floor("pool sites in coverage", len(here) + sum(1 for f, n in banned if f.mod == COV), 2)
    for fi, n in banned:
        if fi.mod in (COV, "cnvlib.parallel"):
            chk.violate("ordered-fanout", f"{fi.qn}::{norm(n.func)}", fi.loc(n), "completion-order consumption of pool results")
    for fi, n in here:
        chk.decide(n.func.attr == "map", "ordered-fanout", f"{fi.name}: pool.{n.func.attr}({norm(n.args[0]) if n.args else ''})", f"{fi.qn}::pool.{n.func.attr}", fi.loc(n), f"pool.{n.func.attr} does not preserve submission order")
    chunker(chk, prog)


def chunker(chk, prog):
    """to_chunks, small-scope exhaustive (shared with C10: the N-worker pileup must see every line the 1-worker run sees)"""
    ft = prog.fn("cnvlib.parallel.to_chunks")
    tb = Table(chk, "chunker", "to_chunks: chunk sizes 1..3 x line counts 0..3c+1 (with comment lines)", ft.loc(), ft.qn)
    for c in (1, 2, 3):
        for n in range(0, 3 * c + 2):
            for comments in (False, True):
                W.reset()
                lines = [f"chr1\t{i}\t{i + 1}\n" for i in range(n)]
                src = list(lines)
                if comments:
                    src = ["#header\n"] + [x for l in lines for x in (l, "#c\n")]
                files, by_name, counter = {}, {}, [0]
                model = Model()

                def mkstemp(it, suffix="", prefix="", counter=counter, by_name=by_name, **k):
                    counter[0] += 1
                    name = f"{prefix}{counter[0]}{suffix}"
                    by_name[name] = counter[0]
                    return (counter[0], name)
                model.ext["tempfile.mkstemp"] = mkstemp

                def fdopen(it, fd, mode="r", files=files):
                    files[fd] = FileStub(None, fd)
                    return files[fd]
                model.ext["os.fdopen"] = fdopen
                model.ext["atexit.register"] = lambda it, *a, **k: None
                model.builtins["open"] = lambda fname, *a, src=src: list(src)
                it = Interp(prog, model)
                out = tb.guard(lambda: list(it.run(ft.qn, ["regions.bed", c])), f"chunk_size={c} lines={n} comments={comments}")
                if out is None:
                    continue
                got, chunks, ok = [], [], len(set(out)) == len(out)
                for name in out:
                    f = files.get(by_name.get(name))
                    if f is None:
                        ok = False
                        continue
                    chunks.append(f.lines)
                    ok = ok and f.closed and 0 < len(f.lines) <= c
                    got += f.lines
                ok = ok and got == lines
                tb.cell(ok, dict(chunk_size=c, lines=n, comment_lines=comments, chunks=[len(x) for x in chunks], lines_out=len(got), want=n))
    tb.done("to_chunks loses, duplicates or reorders lines of the regions file (or yields an open / empty / oversized chunk)")


_C = "cnvlib/coverage.py"


class PoolStub:
    """concurrent.futures executor: map applies the function to the items in submission order (trusted: Executor.map order)"""

    def __init__(self, it, nprocs):
        self.it, self.nprocs, self.maps = it, nprocs, 0


def pool_hook(it, obj, name, args, kw):
    if not isinstance(obj, PoolStub):
        return NotImplemented
    if name != "map":
        raise Raised("Unordered", f"pool.{name}: only Executor.map keeps submission order")
    obj.maps += 1
    if len(args) == 2:
        return [it.call(args[0], [x], {}) for x in it.iterate(args[1])]
    # Executor.map(f, xs, ys, ...): f(x, y, ...) for the zipped arguments, up to the shortest
    return [it.call(args[0], list(a), {}) for a in zip(*[iter(it.iterate(x)) for x in args[1:]])]


def d5b(chk, prog):
    """serial and parallel read counting: same bins in the same order, the caller's min_mapq at every region_depth_count"""
    fi = prog.fn(f"{COV}.interval_coverages_count")
    tb = Table(chk, "ordered-fanout", "interval_coverages_count: (bin, min_mapq, alignment file, reference) reaching region_depth_count, procs=1 vs procs=3", fi.loc(), fi.qn)
    rows = [dict(chromosome=c, start=s, end=s + 100, gene=f"g{c}{s}") for c, s in (("chr1", 0), ("chr1", 500), ("chr2", 100), ("chr3", 0), ("chr3", 300), ("chr3", 700))]
    rows.insert(4, dict(chromosome="chr3", start=0, end=100, gene="same-interval-other-name"))          # one interval listed twice under two names (an exon shared by two genes): two rows, each with its own name       # bin counts 2, 1, 3: not a self-inverse order by size
    null = ast.literal_eval(prog.module("cnvlib.params").assigns["NULL_LOG2_COVERAGE"])
    for mq, fasta in itertools.product([0, 30], [None, "ref.fa"]):
        traces = {}
        for procs in (1, 3):
            W.reset()
            model = Model()
            seen, opened = [], []
            model.prims["skgenome.tabio.read_auto"] = lambda it, fname, *a, **k: make_ga("GenomicArray", rows, {}, exact=True)

            def alignment_file(it, fname, mode="rb", reference_filename=None, opened=opened, **k):
                opened.append((fname, reference_filename))
                # chr3 is in the header but holds no alignment (what an index-statistics shortcut would look at)
                stats = [Row({"contig": c, "mapped": n, "unmapped": 0, "total": n}) for c, n in (("chr1", 12), ("chr2", 5), ("chr3", 0))]
                return Row({"filename": fname, "reference_filename": reference_filename, "get_index_statistics": (lambda: list(stats)), "references": ("chr1", "chr2", "chr3"),
                            "mapped": 17, "count": (lambda *a, **k: 0)})
            model.ext["pysam.AlignmentFile"] = alignment_file
            model.ext["concurrent.futures.ProcessPoolExecutor"] = lambda it, n=None, **k: PoolStub(it, n)

            model.method_hooks.append(pool_hook)

            def rdc(it, bam, chrom, start, end, gene, min_mapq, seen=seen):
                if not isinstance(bam, Row):
                    raise Raised("AttributeError", f"region_depth_count called with {bam!r} for the alignment file")
                seen.append((chrom, repr(start), repr(end), gene, repr(min_mapq), bam.filename, bam.reference_filename))
                if chrom == "chr3":
                    return (0, (chrom, start, end, gene, null, 0))         # no read overlaps: depth 0, log2 = NULL_LOG2_COVERAGE
                return (7, (chrom, start, end, gene, ("LOG2", chrom, start), ("DEPTH", chrom, start)))
            model.prims[f"{COV}.region_depth_count"] = rdc
            it = Interp(prog, model)
            out = tb.guard(lambda: list(it.run(fi.qn, ["r.bed", "s.bam", mq, procs, fasta])), f"procs={procs} min_mapq={mq} fasta={fasta}")
            if out is None:
                continue
            want = [(r["chromosome"], repr(r["start"]), repr(r["end"]), r["gene"], repr(mq), "s.bam", fasta) for r in rows]
            want_rows = [[0, (r["chromosome"], r["start"], r["end"], r["gene"], null, 0)] if r["chromosome"] == "chr3" else
                         [7, (r["chromosome"], r["start"], r["end"], r["gene"], ("LOG2", r["chromosome"], r["start"]), ("DEPTH", r["chromosome"], r["start"]))] for r in rows]
            got_rows = [[x[0], tuple(x[1])] for x in out]
            same_rows = len(got_rows) == len(want_rows) and all(g[0] == w[0] and len(g[1]) == 6 and all((same(a, b) if not isinstance(b, (str, tuple)) else a == b) for a, b in zip(g[1], w[1]))
                                                                for g, w in zip(got_rows, want_rows))
            # every bin on a contig that holds reads must have been counted, in file order, with the caller's options;
            # a bin of an empty contig may be answered without a fetch, but only with the empty-bin row
            reached_ok = [x for x in seen if x[0] != "chr3"] == [x for x in want if x[0] != "chr3"] and all(x in want for x in seen)
            tb.cell(same_rows and reached_ok, dict(procs=procs, min_mapq=mq, fasta=fasta, reached=seen[:6], yielded=[(g[0], [repr(v) for v in g[1]]) for g in got_rows][:6]))
            traces[procs] = seen
    tb.done("the read-count path does not report every bin, in file order, with the row region_depth_count gives it for the caller's min_mapq and reference (serial and parallel alike; "
            "a bin without reads is depth 0 / log2 -20)")


def d5c(chk, prog):
    """serial and parallel pileup: same rows in file order, same (bam, min_mapq, fasta) at every bedcov call"""
    fi = prog.fn(f"{COV}.interval_coverages_pileup")
    tb = Table(chk, "ordered-fanout", "interval_coverages_pileup: rows and bedcov arguments, procs = 1 / 3 / 8 (more processes than bins)", fi.loc(), fi.qn)
    # the regions file is not in genomic order (chr2 before chr1; the longer of two bins with one start first): samtools keeps the file's order
    chunks = {"c1.bed": [("chr2", 100, 70), ("chr1", 500, 0)], "c2.bed": [("chr1", 0, 40)], "c3.bed": [("chr3", 300, 100), ("chr3", 0, 10)]}
    for mq, fasta in itertools.product([0, 30], [None, "ref.fa"]):
        outs = {}
        for procs in (1, 3, 8):                      # (8: more worker processes than bins)
            W.reset()
            model = Model()
            calls, removed = [], []

            def to_chunks(it, fname, chunk_size=5000, *a, **k):
                # the real splitter cuts every `chunk_size` lines (k % chunk_size): a size that is not a positive whole number cannot work
                cs = T(chunk_size)
                if not cs.is_const() or cs.cval().denominator != 1:
                    raise Undecided(f"to_chunks(chunk_size={chunk_size!r})")
                if cs.cval() == 0:
                    raise Raised("ZeroDivisionError", "integer modulo by zero (to_chunks with a chunk size of 0 lines)")
                if cs.cval() < 0:
                    raise Raised("ValueError", "to_chunks with a negative chunk size")
                return list(chunks)
            model.prims["cnvlib.parallel.to_chunks"] = to_chunks
            # the regions file, should the code look into it itself: five records (and a comment line)
            model.builtins["open"] = lambda fname, *a, **k: ["#track\n"] + [f"{r[0]}\t{r[1]}\t{r[1] + 100}\tg{r[1]}\n" for c in chunks.values() for r in c]
            model.prims["cnvlib.parallel.rm"] = lambda it, fname, removed=removed: removed.append(fname)

            def bedcov(it, bed, bam, min_mapq, fasta=None, calls=calls):
                calls.append((bed, bam, repr(min_mapq), fasta))
                rows = chunks[bed] if bed in chunks else [r for c in chunks.values() for r in c]
                df = DF({"chromosome": Vec([r[0] for r in rows], aligned=True), "start": Vec([r[1] for r in rows], aligned=True),
                         "end": Vec([r[1] + 100 for r in rows], aligned=True), "gene": Vec([f"g{r[1]}" for r in rows], aligned=True),
                         "basecount": Vec([r[2] for r in rows], aligned=True)}, len(rows))
                df.exact = True
                return df
            model.prims[f"{COV}.bedcov"] = bedcov
            model.ext["concurrent.futures.ProcessPoolExecutor"] = lambda it, n=None, **k: PoolStub(it, n)
            model.method_hooks.append(pool_hook)

            def read_regions(it, fname, *a, **k):
                # what tabio.read_auto gives for the regions file: the same bins, sorted genomically
                srt = sorted((r for c in chunks.values() for r in c), key=lambda r: (r[0], r[1]))
                return make_ga("GenomicArray", [dict(chromosome=r[0], start=r[1], end=r[1] + 100, gene=f"g{r[1]}") for r in srt], {}, exact=True)
            model.prims["skgenome.tabio.read_auto"] = read_regions
            model.prims["skgenome.tabio.read"] = read_regions
            it = Interp(prog, model)
            out = tb.guard(lambda: it.run(fi.qn, ["r.bed", "s.bam", mq, procs, fasta]), f"procs={procs} min_mapq={mq} fasta={fasta}")
            if out is None:
                continue
            allrows = [r for c in chunks.values() for r in c]
            want_calls = [("r.bed", "s.bam", repr(mq), fasta)] if procs == 1 else [(c, "s.bam", repr(mq), fasta) for c in chunks]
            got = list(zip(out.cols["chromosome"].v, out.cols["start"].v, [repr(x) for x in out.cols["depth"].v])) if isinstance(out, DF) and "depth" in out.cols else None
            want = [(r[0], r[1], repr(Fr(r[2], 100) if r[2] else 0)) for r in allrows]
            ok = got is not None and [(a, b) for a, b, _ in got] == [(a, b) for a, b, _ in want] and all(same(out.cols["depth"].v[i], Fr(r[2], 100)) for i, r in enumerate(allrows))
            ok = ok and "gene" in out.cols and list(out.cols["gene"].v) == [f"g{r[1]}" for r in allrows]          # every row keeps its own bin's name
            tb.cell(ok and calls == want_calls, dict(procs=procs, min_mapq=mq, fasta=fasta, bedcov_calls=calls, want_calls=want_calls, rows=got, want_rows=want))
    tb.done("the pileup path does not return the bins in file order with their depths, or bedcov does not get the caller's (bam, min_mapq, fasta) (serial and parallel alike)")


def d7(chk, prog):
    chk.clause("D7", "the index htslib will open (X.bam.bai before X.bai) is not older than the alignment file after ensure_bam_index")
    fi = prog.fn("cnvlib.samutil.ensure_bam_index")
    tb = Table(chk, "fresh-index", "ensure_bam_index over a modelled directory: each of the two index names absent / stale / fresh, BAM and CRAM", fi.loc(), fi.qn)
    for ext, idx in ((".bam", ".bai"), (".cram", ".crai")):
        for first, second in itertools.product(["absent", "stale", "fresh"], repeat=2):
            W.reset()
            aln = "dir/S" + ext
            long_name, short_name = aln + idx, aln[:-1] + "i"
            mtime = {aln: 100}
            for name, state in ((long_name, first), (short_name, second)):
                if state != "absent":
                    mtime[name] = 50 if state == "stale" else 150
            model = Model()
            model.ext["os.path.isfile"] = lambda it, p_, mtime=mtime: p_ in mtime
            model.ext["os.path.exists"] = lambda it, p_, mtime=mtime: p_ in mtime
            model.ext["os.path.getmtime"] = lambda it, p_, mtime=mtime: mtime[p_]
            model.ext["os.stat"] = lambda it, p_, mtime=mtime: Row({"st_mtime": mtime[p_], "st_mtime_ns": mtime[p_] * 10 ** 9}) if p_ in mtime else (_ for _ in ()).throw(Raised("FileNotFoundError", p_))

            def index(it, fname, *a, mtime=mtime, long_name=long_name, **k):
                mtime[long_name] = 200            # samtools index writes X.bam.bai / X.cram.crai
            model.ext["pysam.index"] = index
            model.ext["pathlib.PurePath"] = lambda it, p_: Row({"suffix": "." + p_.rsplit(".", 1)[1] if "." in p_ else "", "name": p_.rsplit("/", 1)[-1]})
            it = Interp(prog, model)
            out = tb.guard(lambda: ("v", it.run(fi.qn, [aln])), f"{ext}: {idx} long={first} short={second}")
            if out is None:
                continue
            opened = long_name if long_name in mtime else (short_name if short_name in mtime else None)
            ok = opened is not None and mtime[opened] >= mtime[aln]
            tb.cell(ok, dict(alignment=aln, long_index=first, short_index=second, index_htslib_opens=opened, its_mtime=mtime.get(opened), alignment_mtime=mtime[aln], returned=out[1]))
    tb.done("after ensure_bam_index the index that htslib opens first can still be older than the alignment file: reads added since are silently not fetched")


def d8(chk, prog):
    chk.clause("D8", "a coordinate-sorted alignment file is accepted whatever its contigs (and an unsorted one refused): ensure_bam_sorted on literal read lists")
    fi = prog.fn("cnvlib.samutil.ensure_bam_sorted")
    tb = Table(chk, "sorted-check", "ensure_bam_sorted on literal read lists: one / two / three contigs, positions restarting at a contig switch, equal positions, a "
               "misplaced read within a contig, disorder beyond the inspected span; by name", fi.loc(), fi.qn)

    def rd(tid, pos, name="r"):
        return Row({"tid": tid, "reference_id": tid, "pos": pos, "reference_start": pos, "qname": name, "query_name": name})
    cases = [("one contig, ascending", [rd(0, 5), rd(0, 9), rd(0, 9), rd(0, 40)], False, True),
             ("one contig, a read before its predecessor", [rd(0, 5), rd(0, 90), rd(0, 40)], False, False),
             ("two contigs, the second starts left of the first's last read", [rd(0, 700), rd(0, 705), rd(1, 10), rd(1, 12)], False, True),
             ("three contigs, one read each, positions descending", [rd(0, 900), rd(1, 500), rd(2, 3)], False, True),
             ("two contigs, disorder inside the second", [rd(0, 5), rd(1, 50), rd(1, 20)], False, False),
             ("no reads", [], False, True),
             ("one read", [rd(3, 77)], False, True),
             ("by name, ascending (positions anyhow)", [rd(0, 90, "a"), rd(1, 5, "a"), rd(0, 7, "b")], True, True),
             ("by name, descending", [rd(0, 1, "b"), rd(0, 2, "a")], True, False),
             ("coordinate order, names descending", [rd(0, 1, "z"), rd(0, 2, "a")], False, True)]
    for label, reads, by_name, want in cases:
        W.reset()
        model = Model()
        closed = []

        def alignment_file(it, fname, *a, reads=reads, closed=closed, **k):
            return Row({"__iter__": None, "close": lambda *a_, **k_: closed.append(True), "reads": list(reads)})
        model.ext["pysam.AlignmentFile"] = alignment_file
        model.ext["itertools.islice"] = lambda it, seq, n: list(seq._d["reads"] if isinstance(seq, Row) else it.iterate(seq))[:n]
        it = Interp(prog, model)
        out = tb.guard(lambda: ("v", it.run(fi.qn, ["S.bam"], dict(by_name=by_name))), label)
        if out is None:
            continue
        tb.cell(out[1] is want, dict(reads=[(r._d["tid"], r._d["pos"], r._d["qname"]) for r in reads], by_name=by_name, returned=out[1], want=want))
    # only the first `span` reads are inspected (documented): disorder after them does not refuse the file
    W.reset()
    model = Model()
    many = [rd(0, 10 + i) for i in range(50)] + [rd(0, 3)]
    model.ext["pysam.AlignmentFile"] = lambda it, fname, *a, **k: Row({"close": lambda *a_, **k_: None, "reads": list(many)})
    model.ext["itertools.islice"] = lambda it, seq, n: list(seq._d["reads"])[:n]
    it = Interp(prog, model)
    out = tb.guard(lambda: ("v", it.run(fi.qn, ["S.bam"])), "51 reads")
    if out is not None:
        tb.cell(out[1] is True, dict(reads="50 ascending reads, then one out of order", returned=out[1], want=True))
    tb.done("a coordinate-sorted alignment file is refused (or an unsorted one accepted): `coverage` then stops with 'must be sorted by coordinates' or reads a file the index cannot serve")


def run(chk):
    prog = chk.prog
    chk.trust("Python grammar via ast", "pysam: fetch / read.positions are 0-based; bedcov filters UNMAP, SECONDARY, QCFAIL, DUP itself and takes -Q",
              "concurrent.futures.Executor.map preserves input order", "math.log(x, 2) = log2(x)")
    d1(chk, prog)
    d2(chk, prog)
    d3(chk, prog)
    d4(chk, prog)
    d4_pileup_driver(chk, prog)
    d5(chk, prog)
    d5b(chk, prog)
    d5c(chk, prog)
    d7(chk, prog)
    d8(chk, prog)
    chk.clause("D6", "the bins' names reach the read-count path whole: BED readers keep the 4th tab-separated field (C08 rule)")
    C08.d1_bed_names(chk, prog)
    C08.d3c_foreign_files(chk, prog)          # ... and a regions file is read as the format it is in (the read-count path auto-detects it; C08-D3c rule)
    chk.clause("CLI", "the `coverage` command line: BAM / regions in their roles, -c, -q, -p, -f reach do_coverage as given")
    from .. import cliglue
    cliglue.check_coverage(chk, prog)


MUTANTS = [
    dict(name="cli: coverage swaps BAM and regions", file="cnvlib/commands.py", old="        args.interval,\n        args.bam_file,\n        args.count,", new="        args.bam_file,\n        args.interval,\n        args.count,"),
    dict(name="cli: coverage drops the mapping-quality cut-off", file="cnvlib/commands.py", old="        args.count,\n        args.min_mapq,\n        args.processes,", new="        args.count,\n        0,\n        args.processes,"),
    dict(name="twin: in-bin bases counted through a list comprehension", expect="silent", file="cnvlib/coverage.py", old="            bases += sum(1 for p in read.positions if start <= p < end)", new="            bases += len([p for p in read.positions if p >= start and p < end])"),
    dict(name="seeded C09e: empty-contig fast path with log2 and depth swapped", file=_C, old="        yield region_depth_count(bamfile, chrom, start, end, gene, min_mapq)\n", new="        if bamfile.get_index_statistics()[2].total == 0 and chrom == 'chr3':\n            yield 0, (chrom, start, end, gene, 0.0, NULL_LOG2_COVERAGE)\n        else:\n            yield region_depth_count(bamfile, chrom, start, end, gene, min_mapq)\n"),
    dict(name="seeded C09d: _rdc_chunk parameters reordered, serial call left positional", edits=[(_C, "                (bam_fname, subr, min_mapq, fasta)\n", "                (bam_fname, subr, fasta, min_mapq)\n"), (_C, "def _rdc_chunk(bamfile, regions, min_mapq, fasta=None):", "def _rdc_chunk(bamfile, regions, fasta=None, min_mapq=0):")]),
    # (dropping ignore_index=True is behaviour-preserving for this function: every later store is aligned on the table's own
    #  index object, checked against pandas; so it is a twin)
    dict(name="twin: pileup chunks concatenated without ignore_index", expect="silent", file=_C, old="table = pd.concat(chunks, ignore_index=True)", new="table = pd.concat(chunks)"),
    dict(name="pileup chunks prepended", file=_C, old="                chunks.append(table)\n", new="                chunks.insert(0, table)\n"),
    dict(name="parallel pileup forgets min_mapq", file=_C, old="                (bed_chunk, bam_fname, min_mapq, fasta)\n", new="                (bed_chunk, bam_fname, 0, fasta)\n"),
    dict(name="parallel count forgets the reference", file=_C, old="                (bam_fname, subr, min_mapq, fasta)\n", new="                (bam_fname, subr, min_mapq)\n"),
    dict(name="twin: parallel pileup refactored (list comprehension, renamed variables, extend)", expect="silent", edits=[(_C, """            args_iter = (
                (bed_chunk, bam_fname, min_mapq, fasta)
                for bed_chunk in to_chunks(bed_fname)
            )
            for bed_chunk_fname, table in pool.map(_bedcov, args_iter):
                chunks.append(table)
                rm(bed_chunk_fname)""", """            jobs = [(piece, bam_fname, min_mapq, fasta) for piece in to_chunks(bed_fname)]
            for piece_fname, part in pool.map(_bedcov, jobs):
                chunks += [part]
                rm(piece_fname)""")]),
    dict(name="twin: serial count passes min_mapq by keyword", expect="silent", file=_C, old="for count, row in _rdc_chunk(bamfile, subregions, min_mapq):", new="for count, row in _rdc_chunk(bamfile, subregions, min_mapq=min_mapq):"),
    dict(name="seeded C09c: reference span instead of aligned positions", file="cnvlib/coverage.py", old="bases += sum(1 for p in read.positions if start <= p < end)", new="bases += min(read.reference_end, end) - max(read.reference_start, start)"),
    dict(name="qcfail not filtered", file=_C, old="            or read.is_qcfail\n", new=""),
    dict(name="mapq <= cut-off dropped", file=_C, old="            or read.mapq < min_mapq", new="            or read.mapq <= min_mapq"),
    dict(name="seeded C09b: bitmask also drops supplementary", file=_C, old="        return not (\n            read.is_duplicate\n            or read.is_secondary\n            or read.is_unmapped\n            or read.is_qcfail\n            or read.mapq < min_mapq\n        )", new="        return not (read.flag & 0xF04 or read.mapq < min_mapq)"),
    dict(name="position p <= end", file=_C, old="            bases += sum(1 for p in read.positions if start <= p < end)", new="            bases += sum(1 for p in read.positions if start <= p <= end)"),
    dict(name="depth per read instead of per base", file=_C, old="    depth = bases / (end - start) if end > start else 0", new="    depth = count / (end - start) if end > start else 0"),
    dict(name="null log2 0 instead of -20", file=_C, old="        math.log(depth, 2) if depth else NULL_LOG2_COVERAGE,", new="        math.log(depth, 2) if depth else 0.0,"),
    dict(name="-Q dropped", file=_C, old='    if min_mapq and min_mapq > 0:\n        cmd.extend(["-Q", str(min_mapq)])\n', new=""),
    dict(name="pileup: depth over all rows", file=_C, old='    table.loc[ok_idx, "depth"] = table.loc[ok_idx, "basecount"] / spans[ok_idx]', new='    table["depth"] = table["basecount"] / spans'),
    dict(name="pileup: log2 mask >= 0", file=_C, old='    ok_idx = table["depth"] > 0\n', new='    ok_idx = table["depth"] >= 0\n'),
    dict(name="basecount not last", file=_C, old='        return ["chromosome", "start", "end", "gene", "basecount"]', new='        return ["chromosome", "start", "end", "basecount", "gene"]'),
    dict(name="parallel branch unordered", file=_C, old="            for chunk in pool.map(_rdc, args_iter):", new="            for chunk in futures.as_completed([pool.submit(_rdc, a) for a in args_iter]):"),
    dict(name="serial count uses another worker", file=_C, old="            for count, row in _rdc_chunk(bamfile, subregions, min_mapq):", new="            for count, row in _rdc_chunk_fast(bamfile, subregions, min_mapq):"),
    dict(name="chunker drops the tail chunk test", file="cnvlib/parallel.py", old="    if k % chunk_size:\n        outfile.close()\n        yield name", new="    if k % chunk_size > 1:\n        outfile.close()\n        yield name"),
    dict(name="chunker: > instead of == at the boundary", file="cnvlib/parallel.py", old="            if k % chunk_size == 0:", new="            if k % chunk_size == chunk_size - 1 and chunk_size > 1:"),
    dict(name="twin: filter De-Morganed", file=_C, old="        return not (\n            read.is_duplicate\n            or read.is_secondary\n            or read.is_unmapped\n            or read.is_qcfail\n            or read.mapq < min_mapq\n        )", new="        return (not read.is_duplicate and not read.is_secondary and not read.is_unmapped\n                and not read.is_qcfail and read.mapq >= min_mapq)", expect="silent"),
    dict(name="twin: position test split", file=_C, old="            bases += sum(1 for p in read.positions if start <= p < end)", new="            bases += sum(1 for p in read.positions if p >= start and end > p)", expect="silent"),
]
