"""Library model of the abstract interpreter (DESIGN 3.8): builtins, numpy / pandas / math
operations on abstract values, GenomicArray plumbing.  Anything not modelled returns an
Opaque value (which makes an obligation undecided only if it reaches an observed cell)."""
import ast
import math
from fractions import Fraction as Fr

from .absval import (NAN, Undecided, Term, OrderVal, Opaque, Vec, NRows, FVal, FStr, DF, GA, Row, Raised, Closure, Module,
                     ClassRef, BoundMethod, T, num, t_add, t_sub, t_mul, t_div, t_neg, fatom, f_exp2, f_log2, f_ceil,
                     f_floor, f_round, f_trunc, f_abs, f_sqrt, f_max, f_min, same, INF)

TRANSPARENT_DECORATORS = {"staticmethod", "classmethod", "property", "contextmanager", "contextlib.contextmanager",
                          "functools.wraps", "wraps", "public"}


def _ai():
    from . import absint
    return absint


def is_nan(x):
    return _ai().is_nan(x)


def lift1(f, a):
    return _ai().lift1(f, a)


def lift2(f, a, b):
    return _ai().lift2(f, a, b)


def bcast(v, n):
    return _ai().bcast(v, n)


# ---------------------------------------------------------------------- decorators
def decorated_call(it, f, decs, args, kw):
    names = [ast.unparse(d.func) if isinstance(d, ast.Call) else ast.unparse(d) for d in decs]
    odd = [n for n in names if n not in TRANSPARENT_DECORATORS and not n.endswith(".setter")]
    if not odd:
        return NotImplemented
    # apply repo decorators by interpretation: decorated = dec(args)(f)
    fn = Closure(f.node, f.env, f.mod, f.qn)
    plain = Closure(_strip_decorators(f.node), f.env, f.mod, f.qn)
    cur = plain
    for d in reversed(decs):
        dn = ast.unparse(d.func) if isinstance(d, ast.Call) else ast.unparse(d)
        if dn in TRANSPARENT_DECORATORS:
            continue
        env = {"__mod__": f.mod}
        if isinstance(d, ast.Call):
            factory = it.ev(d.func, env)
            dargs = [it.ev(a, env) for a in d.args]
            dkw = {k.arg: it.ev(k.value, env) for k in d.keywords}
            dec = it.call(factory, dargs, dkw)
        else:
            dec = it.ev(d, env)
        cur = it.call(dec, [cur], {})
    return it.call(cur, args, kw)


_STRIPPED = {}


def _strip_decorators(node):
    if id(node) not in _STRIPPED:
        import copy
        n2 = copy.copy(node)
        n2.decorator_list = []
        _STRIPPED[id(node)] = n2
    return _STRIPPED[id(node)]


# ---------------------------------------------------------------------- builtins
def builtin(it, name):
    def b_len(x):
        if hasattr(x, "abs_len"):
            return x.abs_len()
        if isinstance(x, GA):
            x = x.data
        if isinstance(x, DF):
            if getattr(x, "exact", False):
                return x.n               # a table standing for exactly its rows (aggregation obligations)
            return NRows(x.n, x.pop) if x.n else 0
        if isinstance(x, Vec):
            if x.exact:
                return len(x.v)
            return NRows(len(x.v)) if len(x.v) else 0
        if isinstance(x, Opaque):
            return Opaque("len", x.prov)
        if isinstance(x, Row):
            return len(x)
        return len(x)

    def b_int(x=0, *a):
        if hasattr(x, "abs_int"):
            return x.abs_int()
        if isinstance(x, str):
            return int(x, *a)
        if x is None or x is NAN or (isinstance(x, float) and x != x):
            raise Raised("ValueError", "cannot convert float NaN to integer")          # int(nan) raises (a missing value standing for NaN)
        if num(x):
            return int(x)
        if isinstance(x, Opaque):
            return x
        r = f_trunc(x)
        if isinstance(r, Term) and r.is_const() and r.cval().denominator == 1:
            return int(r.cval())
        return r

    def b_float(x=0.0):
        if isinstance(x, str):
            return Fr(x) if x not in ("nan", "inf", "-inf") else float(x)
        return x

    def b_abs(x):
        if num(x):
            return abs(x)
        if isinstance(x, Vec):
            return lift1(b_abs, x)
        if isinstance(x, Opaque):
            return x
        return f_abs(x)

    def b_isinstance(v, ty):
        tys = ty if isinstance(ty, tuple) else (ty,)
        if hasattr(v, "abs_isinstance"):
            return v.abs_isinstance([_unproxy(t) for t in tys])
        for t in tys:
            t = _unproxy(t)
            if isinstance(t, type):
                if t is float and isinstance(v, Fr):
                    return True
                if isinstance(v, t) and not (t is int and isinstance(v, bool) and False):
                    return True
                if t in (int, float) and isinstance(v, (Term, OrderVal)):
                    if t is float or T(v).integer:
                        return True
            elif isinstance(t, ClassRef):
                if isinstance(v, GA) and t.name in it.prog.mro(v.cls):
                    return True
                if isinstance(v, Row) and v._d.get("__class__") and t.name in it.prog.mro(v._d["__class__"]):
                    return True
            elif isinstance(t, Module):
                nm = t.name
                if nm in ("pd.Series",) and isinstance(v, Vec):
                    # a Vec carrying an index tag is a Series; one without (np.zeros, .values, np.array) is a plain array
                    if v.fresh or v.aligned:
                        return True
                    continue
                if nm in ("pd.DataFrame",) and isinstance(v, DF):
                    return True
                if nm in ("np.ndarray",) and isinstance(v, Vec):
                    if not (v.fresh or v.aligned):
                        return True
                    continue
                if nm in ("collections.abc.Callable", "typing.Callable") and isinstance(v, (Closure, BoundMethod)):
                    return True
        return False

    def b_round(x, nd=None):
        if hasattr(x, "abs_round"):
            return x.abs_round(nd)
        if num(x) and nd is None:
            return round(x)
        if num(x):
            return round(x, nd)
        if isinstance(x, Opaque):
            return x
        if nd is None:
            return f_round(x)
        return fatom("round_nd", [T(x), T(nd)], T(x).lo, T(x).hi)

    def b_sum(xs, start=0):
        r = start
        for x in it.iterate(xs):
            r = _ai().binop(ast.Add(), r, x)
        return r

    def b_minmax(which):
        def f(*a, **kw):
            xs = list(it.iterate(a[0])) if len(a) == 1 else list(a)
            if kw.get("key") is not None:
                keys = [it.call(kw["key"], [x], {}) for x in xs]
                if not xs:
                    if "default" in kw:
                        return kw["default"]
                    raise Raised("ValueError", "empty sequence")
                if all(num(k) or isinstance(k, (str, tuple)) for k in keys):
                    pick = (min if which == "min" else max)(range(len(xs)), key=lambda i: keys[i])
                    return xs[pick]
                raise Undecided("min/max with abstract keys")
            if not xs:
                if "default" in kw:
                    return kw["default"]
                raise Raised("ValueError", "empty sequence")
            if all(num(x) or isinstance(x, str) for x in xs):
                return (min if which == "min" else max)(xs)
            r = xs[0]
            for x in xs[1:]:
                r = (f_min if which == "min" else f_max)(r, x)
            return r
        return f

    def b_sorted(xs, key=None, reverse=False):
        xs = list(it.iterate(xs))
        if key is not None:
            def lit_key(k):
                if isinstance(k, (list, tuple)):
                    return tuple(lit_key(y) for y in k)
                if isinstance(k, Term) and k.is_const():
                    c = k.cval()
                    return int(c) if c.denominator == 1 else c
                return k
            keys = [lit_key(it.call(key, [x], {})) for x in xs]
            if all(num(k) or isinstance(k, (str, tuple, bool)) for k in keys):
                try:
                    order = sorted(range(len(xs)), key=lambda i: keys[i], reverse=reverse)
                except TypeError:
                    raise Undecided("sorted() with abstract keys")
                return [xs[i] for i in order]
            raise Undecided("sorted() with abstract keys")
        if all(num(x) or isinstance(x, (str, tuple)) for x in xs):
            return sorted(xs, reverse=reverse)
        if xs and all(isinstance(x, OrderVal) and not x.nan for x in xs) and len({x.rep for x in xs}) == len(xs):
            return sorted(xs, key=lambda x: x.rep, reverse=reverse)          # distinct order positions: sorted by position
        raise Undecided("sorted() of abstract values")

    def b_next(itr, *default):
        try:
            return next(itr)
        except StopIteration:
            if default:
                return default[0]
            raise Raised("StopIteration")
        except TypeError:
            raise Undecided(f"next() on {type(itr).__name__}")

    def b_hasattr(o, a):
        if isinstance(o, Row):
            return a in o._d
        if isinstance(o, GA):
            return a in ("data", "meta") or it.prog.find_method(o.cls, a) is not None
        if isinstance(o, Opaque):
            raise Undecided("hasattr on opaque value")
        if isinstance(o, (str, list, dict, tuple)):
            return hasattr(o, a)
        if isinstance(o, (Closure, BoundMethod)):
            return a == "__call__"
        if hasattr(o, "abs_hasattr"):
            return o.abs_hasattr(a)
        return False

    def b_getattr(o, a, *default):
        try:
            return it.attribute(o, a)
        except (AttributeError, Undecided):
            if default:
                return default[0]
            raise

    table = {
        "len": b_len, "int": b_int, "float": b_float, "abs": b_abs, "round": b_round, "sum": b_sum,
        "min": b_minmax("min"), "max": b_minmax("max"), "sorted": b_sorted, "next": b_next,
        "isinstance": b_isinstance, "hasattr": b_hasattr, "getattr": b_getattr,
        "enumerate": lambda x, start=0: _ai().GenList(enumerate(it.iterate(x), start)),
        "zip": lambda *a: _ai().GenList(zip(*[iter(it.iterate(x)) for x in a])),            # (stops at the shortest without draining the others)
        "range": range, "slice": slice, "iter": lambda x: iter(it.iterate(x)), "object": (lambda: object()),
        "filter": lambda f, xs: [x for x in it.iterate(xs) if (_ai().truth(x) if f is None else _ai().truth(it.call(f, [x], {})))],
        "map": lambda f, *xs: _ai().GenList(it.call(f, list(a), {}) for a in zip(*[iter(it.iterate(x)) for x in xs])),
        "any": lambda xs: any(_ai().truth(x) for x in it.iterate(xs)),
        "all": lambda xs: all(_ai().truth(x) for x in it.iterate(xs)),
        "list": lambda x=(): list(it.iterate(x)), "tuple": lambda x=(): tuple(it.iterate(x)),
        "set": lambda x=(): set(it.iterate(x)), "frozenset": lambda x=(): frozenset(it.iterate(x)),
        "dict": lambda *a, **k: dict(*[(x if isinstance(x, dict) else list(it.iterate(x))) for x in a], **k),
        "str": lambda x="": x if isinstance(x, (str, FStr)) else (str(x) if isinstance(x, (int, bool)) or x is None else FStr([FVal(x)])),
        "bool": lambda x=False: _ai().truth(x), "repr": lambda x: repr(x),
        "callable": lambda x: isinstance(x, (Closure, BoundMethod)) or callable(x),
        "print": lambda *a, **k: None, "reversed": lambda x: list(reversed(list(it.iterate(x)))),
        "divmod": divmod, "ord": ord, "chr": chr, "id": id, "type": lambda x: type(x),
        "ValueError": "ValueError", "TypeError": "TypeError", "KeyError": "KeyError", "IndexError": "IndexError",
        "RuntimeError": "RuntimeError", "NotImplementedError": "NotImplementedError", "StopIteration": "StopIteration",
        "Exception": "Exception", "AssertionError": "AssertionError", "OSError": "OSError", "AttributeError": "AttributeError",
        "ZeroDivisionError": "ZeroDivisionError", "RuntimeWarning": "RuntimeWarning", "UserWarning": "UserWarning", "DeprecationWarning": "DeprecationWarning",
        "FutureWarning": "FutureWarning", "Warning": "Warning", "LookupError": "LookupError", "ImportError": "ImportError", "FileNotFoundError": "FileNotFoundError",
        "NotImplemented": NotImplemented, "True": True, "False": False, "None": None,
    }
    if name in ("int", "float", "str", "list", "tuple", "dict", "bool", "set"):
        pytype = {"int": int, "float": float, "str": str, "list": list, "tuple": tuple, "dict": dict, "bool": bool, "set": set}[name]
        fn = table[name]
        return _TypeProxy(pytype, fn)
    if name == "bytes":
        def mk_bytes(x=b"", *a):
            if isinstance(x, (bytes, bytearray)) or (isinstance(x, str) and a):
                return bytes(x, *a) if isinstance(x, str) else bytes(x)
            raise Undecided("bytes() of an abstract value")
        return _TypeProxy(bytes, mk_bytes)
    return table.get(name, NotImplemented)


class Matrix:
    """DataFrame.values: the table's cells, column by column"""

    def __init__(self, names, cols):
        self.names, self.cols = list(names), [list(c) for c in cols]

    def equal(self, other):
        return (isinstance(other, Matrix) and len(self.cols) == len(other.cols) and all(len(a) == len(b) for a, b in zip(self.cols, other.cols))
                and all(same(x, y) for a, b in zip(self.cols, other.cols) for x, y in zip(a, b)))


_OPERATOR_FUNCS = {"add": ("bin", ast.Add()), "sub": ("bin", ast.Sub()), "mul": ("bin", ast.Mult()), "truediv": ("bin", ast.Div()), "floordiv": ("bin", ast.FloorDiv()),
                   "mod": ("bin", ast.Mod()), "pow": ("bin", ast.Pow()), "and_": ("bin", ast.BitAnd()), "or_": ("bin", ast.BitOr()), "xor": ("bin", ast.BitXor()),
                   "iadd": ("bin", ast.Add()), "ior": ("bin", ast.BitOr()), "iand": ("bin", ast.BitAnd()),
                   "lt": ("cmp", ast.Lt()), "le": ("cmp", ast.LtE()), "gt": ("cmp", ast.Gt()), "ge": ("cmp", ast.GtE()), "eq": ("cmp", ast.Eq()), "ne": ("cmp", ast.NotEq()),
                   "is_": ("cmp", ast.Is()), "is_not": ("cmp", ast.IsNot()), "contains": ("cmp_rev_in", None),
                   "not_": ("not", None), "neg": ("neg", None), "getitem": ("getitem", None), "itemgetter": ("itemgetter", None), "attrgetter": ("attrgetter", None)}


class NamedTupleType:
    """the class collections.namedtuple(name, fields) returns: calling it makes a row with those fields"""

    def __init__(self, name, fields):
        self.__name__ = name
        self._fields = tuple(fields)

    def __call__(self, *a, **k):
        if len(a) + len(k) != len(self._fields) or any(x not in self._fields for x in k):
            raise Raised("TypeError", f"{self.__name__}() takes {len(self._fields)} fields")
        return Row(dict(zip(self._fields, a), **k), list(self._fields))

    def _make(self, vals):
        return self(*list(vals))

    def __repr__(self):
        return f"<namedtuple {self.__name__}{self._fields}>"


class MaskIdx:
    """np.nonzero(mask)[0]: the positions where a boolean vector is True (kept as the mask itself)"""

    def __init__(self, mask):
        self.mask = mask

    def as_mask(self):
        return self.mask

    def abs_len(self):
        vals = list(self.mask.v) if hasattr(self.mask, "v") else list(self.mask)
        if all(isinstance(m, bool) for m in vals):
            return sum(vals)
        raise Undecided("number of positions selected by an undecided mask")


class RowLabel:
    """the index label of row `i` of a table (whatever its value)"""

    def __init__(self, i):
        self.i = i

    def __repr__(self):
        return f"<label of row {self.i}>"


class LabelSel:
    """index[mask] of an index whose labels are not literal: the labels of the selected rows.  Used as a row key it addresses every row
    that carries one of them -- the selected rows only when the labels cannot repeat."""

    def __init__(self, n, mask, kind):
        self.n, self.mask, self.kind = n, mask, kind
        self.values = self

    def as_row_mask(self, table_n, table_kind, what):
        if self.n != table_n or self.kind != table_kind:
            raise Undecided(f"{what}: row labels taken from another table's index")
        if self.kind == "any":
            raise Raised("IndexMisalignment", f"{what} by the labels of the rows a mask selects (index[mask]) on a table whose labels may repeat: "
                         "every row sharing a label with a selected row is addressed too")
        return self.mask

    def __repr__(self):
        return "<labels of masked rows>"


class IndexVals:
    """DataFrame.index: only positional access to single labels is modelled"""

    def __init__(self, n, labels=None):
        self.n = n
        self.values = self
        self.labels = labels

    def abs_getitem(self, it, k):
        if isinstance(k, int) and not isinstance(k, bool) and -self.n <= k < self.n:
            return self.labels[k] if self.labels is not None else RowLabel(k % self.n)
        if self.labels is not None and isinstance(k, slice):
            r = Vec(list(self.labels[k]))
            r.exact = True
            return r
        if self.labels is not None and isinstance(k, Vec) and len(k.v) == len(self.labels) and all(isinstance(m, bool) for m in k.v):
            r = Vec([l for l, m in zip(self.labels, k.v) if m])
            r.exact = True
            return r
        if self.labels is None and isinstance(k, Vec) and len(k.v) == self.n:
            return LabelSel(self.n, k, getattr(self, "kind", "any"))          # the labels of the rows a mask selects
        return Opaque("index[]")

    def abs_len(self):
        if self.labels is not None:
            return len(self.labels)
        return NRows(self.n) if self.n else 0

    def abs_iter(self):
        if self.labels is None:
            raise Undecided("iteration over an index of unknown labels")
        return iter(list(self.labels))

    def get_indexer(self, other, *a, **k):
        """positions of other's labels in this index, -1 where absent"""
        if self.labels is None or not isinstance(other, IndexVals) or other.labels is None or a or k:
            raise Undecided("get_indexer on an index of unknown labels")
        if len(set(self.labels)) != len(self.labels):
            raise Raised("pandas.errors.InvalidIndexError", "Reindexing only valid with uniquely valued Index objects")
        r = Vec([self.labels.index(l) if l in self.labels else -1 for l in other.labels])
        r.exact = True
        return r

    def duplicated(self, *a, **k):
        keep = a[0] if a else k.get("keep", "first")
        if self.labels is None or len(a) > 1 or set(k) - {"keep"} or keep not in ("first", "last", False):
            raise Undecided("duplicated() of an index of unknown labels")
        labs = list(self.labels)
        if keep is False:
            out = [labs.count(l) > 1 for l in labs]
        else:
            seq = labs if keep == "first" else labs[::-1]
            seen, out = set(), []
            for l in seq:
                out.append(l in seen)
                seen.add(l)
            out = out if keep == "first" else out[::-1]
        r = Vec(out)
        r.exact = True
        return r

    @property
    def is_unique(self):
        if self.labels is None:
            return Opaque("is_unique")
        return len(set(self.labels)) == len(self.labels)

    @property
    def is_monotonic_increasing(self):
        if self.labels is None:
            return Opaque("is_monotonic_increasing")
        try:
            return all(a <= b for a, b in zip(self.labels, self.labels[1:]))
        except TypeError:
            return Opaque("is_monotonic_increasing")

    def __repr__(self):
        return "<index>"


class ColList(list):
    def drop(self, labels):
        labels = [labels] if isinstance(labels, str) else list(labels)
        return ColList(c for c in self if c not in labels)

    def tolist(self):
        return list(self)

    def get_loc(self, name):
        return self.index(name)

    def isin(self, other):
        return [c in other for c in self]


class _TypeProxy:
    """a builtin type usable both as a callable (abstract conversion) and as an isinstance() argument"""

    def __init__(self, pytype, fn):
        self.pytype, self.fn = pytype, fn

    def __call__(self, *a, **k):
        return self.fn(*a, **k)

    def __repr__(self):
        return f"<type {self.pytype.__name__}>"


def _unproxy(t):
    if isinstance(t, _TypeProxy):
        return t.pytype
    if isinstance(t, tuple):
        return tuple(_unproxy(x) for x in t)
    return t


# ---------------------------------------------------------------------- GA plumbing
def ga_builtin(it, obj, name, args, kw):
    if name == "copy":
        return GA(obj.cls, obj.data.copy(), obj.data.n, dict(obj.meta))
    if name == "as_dataframe":
        d = args[0]
        if not isinstance(d, DF):
            raise Undecided("as_dataframe of non-table")
        if kw.get("reset_index", args[1] if len(args) > 1 else False) is True:
            d = df_method(it, d, "reset_index", [], {"drop": True})
        return GA(obj.cls, d, d.n, dict(obj.meta))
    if name == "as_columns":
        n = None
        cols = {}
        for k, v in kw.items():
            cols[k] = v if isinstance(v, Vec) else Vec(list(it.iterate(v)))
            n = len(cols[k].v)
        return GA(obj.cls, DF(cols, n or 0), n or 0, dict(obj.meta))
    if name == "as_series":
        # pd.Series(arraylike, index=self.data.index): the values, positionally, under the table's own labels
        a0 = args[0] if isinstance(args[0], Vec) else Vec(list(it.iterate(args[0])))
        if a0.fresh and obj.data.index != "range":
            # pd.Series(<Series>, index=...) re-indexes by label: a fresh 0..n-1 Series meets other labels
            raise Raised("IndexMisalignment", "as_series(<Series with a fresh 0..n-1 index>) on a table whose index is not known to be 0..n-1: the values are re-indexed by label")
        if a0.fresh or a0.aligned:
            a0 = a0.view()
        return ext_call(it, "pd.Series", [a0], {"index": value_attr(it, obj.data, "index")})
    if name == "__len__":
        return builtin(it, "len")(obj)
    if name == "add_columns":
        d = obj.data.copy()
        for k, v in kw.items():
            if isinstance(v, Vec) and v.fresh and d.index != "range":
                raise Raised("IndexMisalignment", f"add_columns({k}=<Series with a fresh 0..n-1 index>) on a table whose index is not known to be 0..n-1: "
                             "DataFrame.assign aligns by label, so values land on the wrong rows / become NaN")
            if isinstance(v, Vec) and isinstance(v.aligned, str) and d.index == "range" and not v.fresh:
                raise Raised("IndexMisalignment", f"add_columns({k}=<Series carrying another table's row labels>) on a table renumbered 0..n-1: "
                             "DataFrame.assign aligns by label, so values land on the wrong rows / become NaN")
            d.cols[k] = Vec(bcast(v, d.n), aligned=True)
        return GA(obj.cls, d, d.n, dict(obj.meta))
    if name == "keep_columns":
        d = DF({c: obj.data.cols[c] for c in args[0] if c in obj.data.cols}, obj.data.n, obj.data.index)
        d.exact, d.labels = getattr(obj.data, "exact", False), getattr(obj.data, "labels", None)
        return GA(obj.cls, d, d.n, dict(obj.meta))
    if name == "sort_columns":
        req = list(it.attribute(obj, "_required_columns"))
        order = [c for c in req if c in obj.data.cols] + sorted(c for c in obj.data.cols if c not in req and not c.startswith("__"))
        hidden = {c: v for c, v in obj.data.cols.items() if c.startswith("__")}
        old = obj.data
        obj.data = DF(dict({c: old.cols[c] for c in order}, **hidden), old.n, old.index)
        obj.data.exact, obj.data.labels = getattr(old, "exact", False), getattr(old, "labels", None)
        return None
    if name == "sort":
        d = obj.data
        if d.exact and d.n and all(c in d.cols for c in ("chromosome", "start", "end")) and all(isinstance(x, str) for x in d.cols["chromosome"].v) \
                and _lits(d.cols["start"].v) is not None and _lits(d.cols["end"].v) is not None:
            return NotImplemented              # literal rows: the real GenomicArray.sort is interpreted
        # row-class tables: summarised (rows keep their classes; the index is renumbered)
        obj.data.index = "range"
        obj.data.cols["__sorted__"] = Vec([True] * obj.data.n)
        return None
    return NotImplemented


def enter_context(it, v):
    return v


# ---------------------------------------------------------------------- subscripts
def _col(d, c):
    """a column loaded from a table: the Series carries the table's index; when that index is not known to be 0..n-1 the
    Series remembers it (aligned = the index tag), so label-aligned arithmetic with a fresh-index Series is a visible hazard"""
    v = d.cols[c]
    if isinstance(v, Vec) and v.aligned and d.index != "range":
        v.aligned = d.index
    if isinstance(v, Vec) and d.labels is not None:
        v.labels = d.labels
    return v


class GroupList(list):
    """groupby of an exact table: the (key, sub-table) pairs in group order; `[col]` gives the grouped column, whose
    cumulative / transform methods return a Series in the table's own row order"""

    def __init__(self, df, by, pairs):
        super().__init__(pairs)
        self.df, self.by = df, by

    def abs_getitem(self, it, k):
        if isinstance(k, str) and k in self.df.cols and isinstance(self.by, str):
            g = GroupedCol(self, k)
            g._it = it
            return g
        if isinstance(k, (list, ColList)) and list(k) == [c for c in self.df.cols if not c.startswith("__")]:
            self._it = it
            return self                                      # all columns selected
        if isinstance(k, (list, ColList)) and k and all(isinstance(c, str) and c in self.df.cols for c in k):
            g = GroupList(self.df, self.by, [(key, load_subscript(it, sub, list(k))) for key, sub in self])          # a subset of the columns, same groups in the same order
            g._it = it
            return g
        raise Undecided(f"groupby[{k!r}]")

    def get_group(self, name, *a, **k):
        """DataFrameGroupBy.get_group: that group's rows; a key that is no group raises KeyError"""
        for key, sub in self:
            if key == name or (isinstance(key, tuple) and len(key) == 1 and key[0] == name):
                return sub
        raise Raised("KeyError", repr(name))

    def apply(self, f, *args, **kw):
        """DataFrameGroupBy.apply: the function's tables, concatenated in group order"""
        it = self._it
        parts = [it.call(f, [sub] + list(args), dict(kw)) for _k, sub in self]
        if not parts:
            if self.df.n == 0:
                # no groups, no calls: pandas hands back an empty table with the selected columns
                d = DF({c: Vec([], aligned=True) for c in self.df.cols}, 0)
                d.exact = self.df.exact
                for v in d.cols.values():
                    v.exact = True
                return d
            raise Undecided("groupby.apply without groups")
        return ext_call(it, "pd.concat", [parts], {})


class GroupedCol:
    def __init__(self, groups, col):
        self.groups, self.col = groups, col

    def _reduce(self, pick):
        """one value per group, in group order, labelled by the group keys"""
        keys, vals = [], []
        for key, sub in self.groups:
            keys.append(key)
            vals.append(pick(list(sub.cols[self.col].v)))
        r = Vec(vals, aligned="any")
        r.exact = True
        if all(isinstance(k, (str, int)) for k in keys):
            r.labels = keys
        return r

    def last(self, *a, **k):
        return self._reduce(lambda v: v[-1])

    def first(self, *a, **k):
        return self._reduce(lambda v: v[0])

    def _per_group(self, it, name, args, kw):
        df = self.groups.df
        keys = df.cols[self.groups.by].v
        out = [None] * df.n
        for key, _sub in self.groups:
            pos = [i for i, x in enumerate(keys) if x == key]
            part = Vec([df.cols[self.col].v[i] for i in pos], aligned=True)
            part.exact = True
            res = vec_method(it, part, name, list(args), dict(kw))
            if not isinstance(res, Vec) or len(res.v) != len(pos):
                raise Undecided(f"groupby column method {name}")
            for i, x in zip(pos, res.v):
                out[i] = x
        r = Vec(out, aligned=True)
        r.exact = True
        return r

    def cummax(self, *a, **k):
        return self._per_group(self._it, "cummax", a, k)

    def cummin(self, *a, **k):
        return self._per_group(self._it, "cummin", a, k)

    def cumsum(self, *a, **k):
        return self._per_group(self._it, "cumsum", a, k)


class DType:
    """the dtype of an array / Series, as far as the model can tell: bool | int | float | object"""

    def __init__(self, kind):
        self.kind = kind
        self.name = kind

    def abs_compare(self, op, other, reflected=False):
        if not isinstance(op, (ast.Eq, ast.NotEq)):
            raise Undecided("ordering of dtypes")
        o = _unproxy(other)
        if isinstance(o, type):
            name = o.__name__
        elif isinstance(o, Module):
            name = o.name.split(".")[-1].rstrip("_").replace("float64", "float").replace("int64", "int")
        elif isinstance(o, str):
            name = o.replace("float64", "float").replace("int64", "int").rstrip("_")
        elif isinstance(o, DType):
            name = o.kind
        else:
            raise Undecided(f"dtype compared with {other!r}")
        same_ = name == self.kind or (name == "O" and self.kind == "object")
        return same_ if isinstance(op, ast.Eq) else not same_

    def __repr__(self):
        return f"dtype({self.kind})"


def vec_dtype(v):
    vals = [x for x in v.v if x is not None]
    if vals and all(isinstance(x, bool) for x in vals):
        return DType("bool")
    if vals and all(isinstance(x, str) for x in vals):
        return DType("object")
    if vals and all((isinstance(x, int) and not isinstance(x, bool)) or (isinstance(x, (Term, OrderVal)) and T(x).integer) for x in vals) and len(vals) == len(v.v):
        return DType("int")
    raise Undecided("dtype of a mixed / abstract array")


class LabelSeries:
    """pd.Series(<dict>): values looked up by label"""

    def __init__(self, d):
        self.d = dict(d)

    def abs_getitem(self, it, k):
        if isinstance(k, Vec):
            out = []
            for x in k.v:
                if x not in self.d:
                    raise Raised("KeyError", repr(x))
                out.append(self.d[x])
            return Vec(out)                 # indexed by the looked-up labels: neither the table's index nor 0..n-1
        if k in self.d:
            return self.d[k]
        raise Raised("KeyError", repr(k))

    def abs_len(self):
        return len(self.d)


def _check_mask(mask):
    """an array used as a row mask holds truth values (or undecided ones), never numbers: an array of numbers is positions or labels, and reading it as a mask would
    silently select nothing"""
    if any(isinstance(m, (int, float, Fr)) and not isinstance(m, bool) for m in getattr(mask, "v", ())):
        raise Undecided("selection by an array of numbers that is not known to be literal positions")


def _maskload(vec, mask):
    _check_mask(mask)
    return Vec(x if m is True else None for m, x in zip(mask.v, vec.v))


def load_subscript(it, obj, k):
    if hasattr(obj, "abs_getitem"):
        return obj.abs_getitem(it, k)
    if isinstance(obj, Module) and obj.name == "np.r_":
        # np.r_[a, b, ...]: scalars and 1-D arrays concatenated
        parts = k if isinstance(k, tuple) else (k,)
        out, exact = [], True
        for p in parts:
            if isinstance(p, Vec):
                out.extend(p.v)
                exact = exact and p.exact
            elif isinstance(p, (list, tuple)):
                out.extend(p)
            elif isinstance(p, (slice, Opaque)) or p is None:
                raise Undecided(f"np.r_ with {p!r}")
            else:
                out.append(p)
        r = Vec(out)
        r.exact = exact
        return r
    if isinstance(obj, GA):
        if isinstance(k, str):
            if k not in obj.data.cols:
                raise Raised("KeyError", k)
            return _col(obj.data, k)
        if isinstance(k, tuple) and len(k) == 2 and isinstance(k[1], str) and isinstance(k[0], Vec):
            return _maskload(obj.data.cols[k[1]], k[0])
        if isinstance(k, tuple) and len(k) == 2 and isinstance(k[1], str) and isinstance(k[0], MaskIdx):
            # arr[<row positions>, col] goes through .loc, which reads them as index labels
            if obj.data.index != "range":
                raise Raised("IndexMisalignment", f"row positions (np.flatnonzero / np.nonzero of a mask) used as index labels in `[rows, {k[1]!r}]` of a table whose index is not "
                             "known to be 0..n-1: the rows carrying those numbers as labels are addressed, not the rows at those positions")
            return _maskload(obj.data.cols[k[1]], k[0].mask)
        if isinstance(k, Vec):
            return GA(obj.cls, df_select(obj.data, k), obj.data.n, dict(obj.meta))
        if isinstance(k, slice) and k.start is None and k.stop == 0:
            return GA(obj.cls, DF({c: Vec([]) for c in obj.data.cols}, 0), 0, dict(obj.meta))
        if isinstance(k, slice) and obj.data.exact and all(x is None or (isinstance(x, int) and not isinstance(x, bool)) for x in (k.start, k.stop, k.step)):
            # arr[a:b] of literal rows: the rows at those positions (DataFrame slicing with integers is positional)
            mask = Vec([False] * obj.data.n)
            for i in list(range(obj.data.n))[k]:
                mask.v[i] = True
            if k.step is not None and k.step < 0:
                raise Undecided("reversed row slice of a table")
            d = df_select(obj.data, mask)
            return GA(obj.cls, d, d.n, dict(obj.meta))
        if isinstance(k, int) and not isinstance(k, bool):
            fields = [c for c in obj.data.cols if not c.startswith("__")]
            if not -obj.data.n <= k < obj.data.n:
                raise Raised("IndexError", str(k))
            return Row({c: obj.data.cols[c].v[k] for c in fields}, fields)
        if isinstance(k, (list, tuple)) and all(isinstance(c, str) for c in k):
            return DF({c: obj.data.cols[c] for c in k}, obj.data.n, obj.data.index)
        raise Undecided(f"GA getitem {k!r}")
    if isinstance(obj, BoundMethod) and obj.name in ("iat", "iloc") and isinstance(obj.obj, DF) and isinstance(k, tuple) and len(k) == 2 \
            and all(isinstance(x, int) and not isinstance(x, bool) for x in k):
        d = obj.obj
        names = [c for c in d.cols if not c.startswith("__")]
        if not d.exact:
            raise Undecided(f".{obj.name}[{k[0]}, {k[1]}] on a table that does not stand for literal rows")
        if not (-d.n <= k[0] < d.n and -len(names) <= k[1] < len(names)):
            raise Raised("IndexError", "index out of bounds")
        return d.cols[names[k[1]]].v[k[0]]                  # one cell by (row position, column position)
    if isinstance(obj, BoundMethod) and obj.name in ("loc", "iloc") and isinstance(obj.obj, DF):
        d = obj.obj
        if isinstance(k, tuple) and len(k) == 2 and isinstance(k[1], slice) and k[1] == slice(None, None, None) and not (isinstance(k[0], slice) and k[0] == slice(None, None, None)):
            return load_subscript(it, obj, k[0])           # .loc[rows, :] / .iloc[rows, :]: all columns of those rows
        if isinstance(k, tuple) and len(k) == 2:
            rows, col = k
            if isinstance(rows, slice) and rows == slice(None, None, None):
                if isinstance(col, str):
                    return _col(d, col)
                if isinstance(col, slice):
                    if obj.name != "iloc" or not all(x is None or (isinstance(x, int) and not isinstance(x, bool)) for x in (col.start, col.stop, col.step)):
                        raise Undecided(f".{obj.name}[:, {col!r}]")
                    col = [c for c in d.cols if not c.startswith("__")][col]
                out = DF({c: d.cols[c] for c in col}, d.n, d.index)
                out.exact, out.labels = d.exact, d.labels
                return out
            if isinstance(rows, Vec) and isinstance(col, str):
                return _maskload(d.cols[col], rows)
            if isinstance(rows, int) and isinstance(col, str):
                return d.cols[col].v[rows]
        if obj.name == "loc" and isinstance(k, IndexVals) and k.labels is not None:
            k = list(k.labels)
        if obj.name == "loc" and isinstance(k, Vec) and k.exact and d.labels is not None and all(isinstance(i, int) and not isinstance(i, bool) for i in k.v) \
                and not (len(k.v) == d.n and k.v and all(isinstance(i, bool) for i in k.v)):
            k = list(k.v)                                   # an array of row labels
        if obj.name == "iloc" and isinstance(k, Vec) and k.exact and d.exact and not k.v and d.n:
            k = Vec([False] * d.n)                          # no position at all: no row (an empty array of positions is not an empty mask)
            k.exact = True
        if obj.name == "iloc" and isinstance(k, Vec) and k.exact and d.exact and k.v and all(isinstance(i, int) and not isinstance(i, bool) for i in k.v):
            if any(not -d.n <= i < d.n for i in k.v):
                raise Raised("IndexError", "positional indexers are out-of-bounds")
            k = [i % d.n for i in k.v]                       # positional take; negative positions count from the end
        if isinstance(k, MaskIdx):
            if obj.name == "loc" and d.index != "range":
                raise Raised("IndexMisalignment", "row positions (np.flatnonzero / np.nonzero of a mask) used as index labels in `.loc[rows]` of a table whose index is not known to be 0..n-1")
            k = k.mask                                      # .iloc[<positions where the mask holds>]: the same rows as the mask selects, in table order
        if isinstance(k, Vec):
            return df_select(d, k)
        if obj.name == "loc" and isinstance(k, slice) and d.exact and d.labels is not None and k.step is None and \
                all(x is None or (isinstance(x, int) and not isinstance(x, bool)) for x in (k.start, k.stop)):
            # label slice, both ends included; on a non-monotonic index both labels must exist
            lab = d.labels
            mono = all(a < b for a, b in zip(lab, lab[1:]))
            if mono:
                k = [i for i, x in enumerate(lab) if (k.start is None or x >= k.start) and (k.stop is None or x <= k.stop)]
            else:
                for x in (k.start, k.stop):
                    if x is not None and x not in lab:
                        raise Raised("KeyError", f"label {x} not in a non-monotonic index")
                lo = lab.index(k.start) if k.start is not None else 0
                hi = lab.index(k.stop) if k.stop is not None else len(lab) - 1
                k = list(range(lo, hi + 1))
            out = DF({c: Vec([v.v[i] for i in k], aligned=True) for c, v in d.cols.items()}, len(k), "subset")
            out.exact, out.labels = True, [lab[i] for i in k]
            return out
        if obj.name == "iloc" and isinstance(k, slice) and d.exact and all(x is None or (isinstance(x, int) and not isinstance(x, bool)) for x in (k.start, k.stop, k.step)):
            k = list(range(d.n))[k]
        if isinstance(k, (list, tuple)) and all(isinstance(i, int) and not isinstance(i, bool) for i in k):
            if obj.name == "loc" and d.labels is not None:
                missing = [i for i in k if i not in d.labels]
                if missing:
                    raise Raised("KeyError", f"labels {missing} not in index")
                k = [d.labels.index(i) for i in k]
            out = DF({c: Vec([v.v[i] for i in k], aligned=True) for c, v in d.cols.items()}, len(k), "subset")
            out.exact = getattr(d, "exact", False)
            out.labels = [d.labels[i] for i in k] if d.labels is not None else None
            return out
        raise Undecided(f".{obj.name}[{k!r}]")
    if isinstance(obj, BoundMethod) and obj.name in ("iat", "iloc", "at", "loc") and isinstance(obj.obj, Vec):
        v = obj.obj
        if isinstance(k, slice) and obj.name == "iloc":
            return Vec(v.v[_int_slice(k, len(v.v))], aligned=v.aligned)
        if isinstance(k, int) and not isinstance(k, bool) and obj.name in ("at", "loc") and v.labels is not None and (v.aligned or v.fresh) and len(v.labels) == len(v.v):
            hits = [i for i, l in enumerate(v.labels) if l == k]              # label lookup on a Series with literal labels
            if not hits:
                raise Raised("KeyError", str(k))
            if len(hits) > 1:
                raise Undecided(f".{obj.name}[{k}] on a Series with a repeated label")
            return v.v[hits[0]]
        if isinstance(k, int):
            if not v.v:
                raise Raised("IndexError")
            return v.v[k]
        if obj.name == "iloc" and hasattr(k, "as_mask"):
            return _maskload(v, k.as_mask())             # positions taken from a mask over row classes: the classes the mask selects
        if isinstance(k, Vec) and obj.name == "iloc" and k.exact and v.exact and all(isinstance(i, int) and not isinstance(i, bool) for i in k.v):
            # Series.iloc[<integer array>]: the elements at those positions, in that order, each under its own label
            if not all(-len(v.v) <= i < len(v.v) for i in k.v):
                raise Raised("IndexError", "positional indexers are out-of-bounds")
            r = Vec([v.v[i] for i in k.v], aligned=("subset" if (v.aligned is True or v.fresh) else v.aligned))
            r.exact = True
            base_labels = v.labels if v.labels is not None and len(v.labels) == len(v.v) else (list(range(len(v.v))) if (v.fresh or v.aligned is True) else None)
            if base_labels is not None:
                r.labels = [base_labels[i] for i in k.v]
            return r
        if isinstance(k, Vec) and k.v and all(isinstance(m, bool) for m in k.v) or isinstance(k, Vec) and not k.v:
            return _maskload(v, k)
        if isinstance(k, Vec):
            raise Undecided(f"Series .{obj.name}[<array that is neither a literal mask nor literal positions>]")
        raise Undecided(f"Series .{obj.name}[{k!r}]")
    if isinstance(obj, DF):
        if isinstance(k, Vec):
            return df_select(obj, k)
        if isinstance(k, str):
            if k not in obj.cols:
                raise Raised("KeyError", k)
            return _col(obj, k)
        if isinstance(k, (list, tuple)):
            missing = [c for c in k if c not in obj.cols]
            if missing:
                raise Raised("KeyError", f"{missing} not in index")
            r = DF({c: obj.cols[c] for c in k}, obj.n, obj.index)
            if obj.exact:
                r.exact = True
            if obj.labels is not None:
                r.labels = list(obj.labels)
            return r
        raise Undecided(f"DataFrame getitem {k!r}")
    if isinstance(obj, Vec):
        if hasattr(k, "as_mask"):
            k = k.as_mask()
        if isinstance(k, IndexVals) and k.labels is None and k.n == len(obj.v) and (obj.aligned or obj.fresh):
            return obj                                # ser[<its own table's index>]: the whole Series
        if isinstance(k, IndexVals) and k.labels is not None:
            lab = Vec(list(k.labels))                 # an Index object used as an array of labels
            lab.exact = True
            if not lab.v:
                r = Vec([], aligned=obj.aligned)
                r.exact, r.labels = True, []
                return r
            k = lab
        if isinstance(k, bool):
            raise Undecided("bool index")
        if isinstance(k, int) and obj.labels is not None and (obj.aligned or obj.fresh):
            # a Series with literal integer labels: [] looks the label up
            if k not in obj.labels:
                raise Raised("KeyError", str(k))
            return obj.v[obj.labels.index(k)]
        if isinstance(k, int):
            try:
                return obj.v[k]
            except IndexError:
                raise Raised("IndexError")
        if isinstance(k, Term) and k.is_const():
            return obj.v[int(k.cval())]
        if isinstance(k, Vec) and k.exact and obj.labels is not None and (obj.aligned or obj.fresh) and all(isinstance(i, int) and not isinstance(i, bool) for i in k.v):
            # a labelled Series subscripted by an array of labels
            missing = [i for i in k.v if i not in obj.labels]
            if missing:
                raise Raised("KeyError", f"labels {missing} not in index")
            r = Vec([obj.v[obj.labels.index(i)] for i in k.v], aligned=obj.aligned)
            r.exact, r.labels = True, list(k.v)
            return r
        if isinstance(k, Vec) and obj.exact and len(k.v) == len(obj.v) and all(isinstance(m, bool) for m in k.v):
            r = Vec([x for x, m in zip(obj.v, k.v) if m], fresh=False, aligned=(obj.aligned or ("subset" if obj.fresh else False)))          # literal elements: filtered for real
            r.exact = True
            if obj.labels is not None and len(obj.labels) == len(obj.v):
                r.labels = [l for l, m in zip(obj.labels, k.v) if m]
            return r
        if isinstance(k, tuple) and len(k) == 2 and getattr(obj, "ncols", None) and isinstance(k[1], int) and not isinstance(k[1], bool) and -obj.ncols <= k[1] < obj.ncols:
            # a 2-D array (rows of `ncols` values): one column, or one cell
            if isinstance(k[0], slice) and k[0] == slice(None, None, None):
                r = Vec([row[k[1]] for row in obj.v])
                r.exact = obj.exact
                return r
            if isinstance(k[0], int) and not isinstance(k[0], bool):
                return obj.v[k[0]][k[1]]
        if isinstance(k, Vec) and k.exact and k.v and all(isinstance(i, int) and not isinstance(i, bool) for i in k.v) and not (obj.aligned or obj.fresh) \
                and all(-len(obj.v) <= i < len(obj.v) for i in k.v):
            r = Vec([obj.v[i] for i in k.v])              # ndarray[<integer array>]: the elements at those positions, in that order
            r.exact = obj.exact
            return r
        if isinstance(k, Vec):
            return _maskload(obj, k)
        if isinstance(k, slice):
            sl = _int_slice(k, len(obj.v))
            r = Vec(obj.v[sl])
            r.exact = obj.exact
            if not (obj.aligned or obj.fresh):
                # a basic slice of an ndarray is a view: stores through either name reach the same elements
                r.base = (obj, list(range(len(obj.v)))[sl])
                if not hasattr(obj, "views"):
                    obj.views = []
                obj.views.append((r, r.base[1]))
            return r
        if isinstance(k, (list, tuple)) and all(isinstance(i, int) and not isinstance(i, bool) for i in k):
            r = Vec([obj.v[i] for i in k])
            r.exact = obj.exact                              # literally these positions of literally these elements
            return r
        raise Undecided(f"vector index {k!r}")
    if isinstance(obj, Row):
        if isinstance(k, (int, str, slice)):
            try:
                return obj[k]
            except (KeyError, IndexError):
                raise Raised("KeyError" if isinstance(k, str) else "IndexError", str(k))
    if isinstance(obj, dict):
        for kk in obj:
            if same(kk, k):
                return obj[kk]
        if hasattr(obj, "default_factory") and obj.default_factory is not None:
            obj[k] = obj.default_factory()
            return obj[k]
        raise Raised("KeyError", repr(k))
    if isinstance(obj, (list, tuple, str, range)):
        if isinstance(k, Term) and k.is_const():
            k = int(k.cval())
        if isinstance(k, (int, slice)) and not isinstance(k, bool):
            try:
                return obj[k]
            except IndexError:
                raise Raised("IndexError")
        raise Undecided(f"sequence index {k!r}")
    if isinstance(obj, Opaque):
        return Opaque(f"{obj.why}[]", obj.prov)
    if isinstance(obj, Module):
        return obj                                  # typing subscripts: Optional[int] ...
    raise Undecided(f"subscript of {type(obj).__name__}")


def _int_slice(k, n):
    """slice bounds as plain ints: a table-size value stands for the vector's own length, constant terms for their value"""
    def conv(x):
        if isinstance(x, NRows):
            return n
        if isinstance(x, Term) and x.is_const() and x.cval().denominator == 1:
            return int(x.cval())
        if x is None or (isinstance(x, int) and not isinstance(x, bool)):
            return x
        raise Undecided(f"slice bound {x!r}")
    return slice(conv(k.start), conv(k.stop), conv(k.step))


def df_select(d, mask):
    """boolean row selection: the table keeps its classes; `__keep__` remembers which survive.
    A table marked exact (it stands for exactly its rows) is filtered for real."""
    if getattr(d, "exact", False):
        if not all(isinstance(m, bool) for m in mask.v) or len(mask.v) != d.n:
            raise Undecided("row selection of an exact table with an undecided mask")
        keep = [i for i, m in enumerate(mask.v) if m]
        out = DF({c: Vec([v.v[i] for i in keep], aligned=True) for c, v in d.cols.items()}, len(keep), "subset")
        out.exact = True
        out.labels = [d.labels[i] for i in keep] if d.labels is not None else None
        return out
    _check_mask(mask)
    out = DF(d.cols, d.n, "subset")
    prev = d.cols.get("__keep__", Vec([True] * d.n))
    out.cols["__keep__"] = Vec((p is True) and (m is True) for p, m in zip(prev.v, mask.v))
    return out


def sync_views(vec, _from=None):
    """ndarray views (basic slices) share their elements with the array they were cut from: after a store into `vec`, bring the array it views and
    the views cut from it up to date"""
    b = getattr(vec, "base", None)
    if b is not None and b[0] is not _from and len(b[1]) == len(vec.v):
        parent, pos = b
        for i, p_ in enumerate(pos):
            parent.v[p_] = vec.v[i]
        sync_views(parent, vec)
    for child, pos in getattr(vec, "views", ()):
        if child is not _from and all(p_ < len(vec.v) for p_ in pos):
            child.v = [vec.v[p_] for p_ in pos]
            sync_views(child, vec)


def store_subscript(it, obj, k, v, aug=False):
    if isinstance(obj, Vec) and (getattr(obj, "base", None) is not None or getattr(obj, "views", None)):
        _store_subscript(it, obj, k, v, aug)
        sync_views(obj)
        return
    return _store_subscript(it, obj, k, v, aug)


def _store_subscript(it, obj, k, v, aug=False):
    if hasattr(obj, "abs_setitem"):
        return obj.abs_setitem(it, k, v, aug)
    accessor = None
    if isinstance(obj, BoundMethod) and obj.name in ("loc", "iloc", "at", "iat"):
        accessor = obj.name
        obj = obj.obj
    if isinstance(obj, GA):
        obj = obj.data
    if isinstance(obj, DF):
        if isinstance(k, tuple) and len(k) == 2:
            mask, col = k
        else:
            mask, col = None, k
        if isinstance(col, (list, tuple)) and col and all(isinstance(c, str) for c in col) and accessor in ("loc", None) and isinstance(k, tuple):
            # .loc[rows, [col, ...]] = value: the same rows of each listed column (one scalar for all, or one per column)
            vals = list(v) if isinstance(v, (list, tuple)) and len(v) == len(col) else None
            if vals is None and isinstance(v, (list, tuple, Vec, DF)):
                raise Undecided(f"table store of {type(v).__name__} into columns {list(col)}")
            for j, c in enumerate(col):
                store_subscript(it, BoundMethod(obj, accessor) if accessor else obj, (mask, c), vals[j] if vals is not None else v, aug)
            return
        if accessor in ("loc", "at") and isinstance(mask, int) and not isinstance(mask, bool) and obj.labels is not None and isinstance(col, str):
            # .loc[<label>, col] = v: every row carrying that label (labels may repeat, e.g. after pd.concat without ignore_index)
            pos = [i for i, l in enumerate(obj.labels) if l == mask]
            if not pos:
                raise Undecided(f".loc[{mask!r}, {col!r}] = ... on a table without that label (enlargement)")
            newcol = list(obj.cols[col].v) if col in obj.cols else [None] * obj.n
            for i in pos:
                newcol[i] = v
            obj.cols[col] = Vec(newcol, aligned=True)
            if obj.exact:
                obj.cols[col].exact = True
            return
        if isinstance(mask, slice) and mask == slice(None, None, None):
            mask = None
        if isinstance(mask, MaskIdx):
            if accessor in ("loc", "at") and obj.index != "range":
                raise Raised("IndexMisalignment", f"row positions (np.flatnonzero / np.nonzero of a mask) used as index labels in `.loc[rows, {col!r}] = ...` on a table whose index is "
                             "not known to be 0..n-1: the rows carrying those numbers as labels are written, not the rows at those positions")
            mask = mask.mask
        if isinstance(col, int) and not isinstance(col, bool):
            col = [c for c in obj.cols if not c.startswith("__")][col]          # .iloc[row, column position]
        if not isinstance(col, str):
            raise Undecided(f"table store with key {k!r}")
        n = obj.n
        if isinstance(mask, IndexVals) and mask.labels is None and mask.n == n and getattr(mask, "kind", obj.index) == obj.index:
            mask = None                                   # .loc[<the table's own index>, col]: every row
        if isinstance(mask, LabelSel):
            mask = mask.as_row_mask(n, obj.index, f"store into column `{col}`")
        if isinstance(mask, IndexVals) and mask.labels is not None:
            lab = Vec(list(mask.labels))
            lab.exact = True
            mask = lab
        if isinstance(mask, Vec) and mask.exact and obj.labels is not None and mask.v is not None and all(isinstance(i, int) and not isinstance(i, bool) for i in mask.v) \
                and not (len(mask.v) == n and all(isinstance(i, bool) for i in mask.v)):
            # .loc[<array of labels>, col] = values: one value per listed label
            missing = [i for i in mask.v if i not in obj.labels]
            if missing:
                raise Raised("KeyError", f"labels {missing} not in index")
            pos = [obj.labels.index(i) for i in mask.v]
            vals = list(v.v) if isinstance(v, Vec) else [v] * len(pos)
            if isinstance(v, Vec) and v.labels is not None and sorted(v.labels) == sorted(mask.v):
                vals = [v.v[v.labels.index(i)] for i in mask.v]              # aligned by label
            elif len(vals) != len(pos):
                raise Raised("ValueError", "Must have equal len keys and value when setting with an iterable")
            newcol = list(obj.cols[col].v) if col in obj.cols else [None] * n
            for p_, x in zip(pos, vals):
                newcol[p_] = x
            obj.cols[col] = Vec(newcol, aligned=True)
            if obj.exact:
                obj.cols[col].exact = True
            return
        if isinstance(mask, RowLabel):
            mask = mask.i
        if isinstance(mask, int) and not isinstance(mask, bool):
            if col not in obj.cols or not -n <= mask < n:
                raise Raised("IndexError", f"cell store [{mask}, {col}]")
            newcol = list(obj.cols[col].v)
            newcol[mask] = v
            obj.cols[col] = Vec(newcol, aligned=True)
            return
        if isinstance(v, (list, tuple)) and len(v) == n and not isinstance(v, str):
            v = Vec(v)
        if isinstance(v, Vec) and v.fresh and obj.index != "range":
            raise Raised("IndexMisalignment", f"a Series built by pd.Series(<array>) (fresh 0..n-1 index) is stored into column `{col}` of a table whose "
                         "index is not known to be 0..n-1: pandas aligns by label, so values land on the wrong rows / become NaN")
        if isinstance(v, Vec) and isinstance(v.aligned, str) and obj.index == "range" and not v.fresh:
            raise Raised("IndexMisalignment", f"a Series carrying another table's row labels (index kind: {v.aligned}) is stored into column `{col}` of a table that was renumbered 0..n-1: "
                         "pandas aligns by label, so values land on the wrong rows / become NaN")
        vlabels = (list(v.labels) if v.labels is not None else list(range(len(v.v))) if v.fresh else None) if isinstance(v, Vec) else None      # (a fresh Series is labelled 0..n-1)
        if mask is None and isinstance(v, Vec) and vlabels is not None and obj.labels is not None and (v.aligned or v.fresh) and vlabels != list(obj.labels):
            # a labelled Series stored as a column: pandas aligns by label (missing labels -> NaN; a duplicated label cannot be aligned)
            if len(set(vlabels)) != len(vlabels):
                raise Raised("ValueError", "cannot reindex on an axis with duplicate labels")
            newcol = [v.v[vlabels.index(l)] if l in vlabels else None for l in obj.labels]
            obj.cols[col] = Vec(newcol, aligned=True)
            if obj.exact:
                obj.cols[col].exact = True
            return
        if mask is None:
            obj.cols[col] = Vec(bcast(v, n), aligned=True)
        elif isinstance(mask, Vec):
            _check_mask(mask)
            old = obj.cols[col].v if col in obj.cols else [None] * n
            newv = bcast(v, n)
            obj.cols[col] = Vec((nv if m is True else ov for m, ov, nv in zip(mask.v, old, newv)), aligned=True)
        else:
            raise Undecided(f"table store with row key {mask!r}")
        return
    if isinstance(obj, Vec):
        if hasattr(k, "as_mask"):
            k = k.as_mask()
        if isinstance(k, Vec) and isinstance(v, Vec) and len(k.v) == len(obj.v) and all(isinstance(m, bool) for m in k.v) and len(v.v) == sum(k.v) != len(obj.v):
            vals = iter(v.v)                               # arr[mask] = <one value per selected slot>
            obj.v = [next(vals) if m else ov for m, ov in zip(k.v, obj.v)]
        elif isinstance(k, Vec) and isinstance(v, Vec) and obj.exact and v.exact and len(k.v) == len(obj.v) and all(isinstance(m, bool) for m in k.v) and len(v.v) != len(obj.v):
            # a boolean-mask store of an array of another length than the number of selected slots
            if obj.labels is not None and (obj.aligned or obj.fresh) and v.labels is not None and (v.aligned or v.fresh):
                # Series[mask] = Series: the value is aligned by label onto the selected rows; a selected row without a partner becomes NaN
                obj.v = [(v.v[v.labels.index(l)] if l in v.labels else None) if m else ov for m, ov, l in zip(k.v, obj.v, obj.labels)]
            else:
                raise Raised("ValueError", f"NumPy boolean array indexing assignment cannot assign {len(v.v)} input values to the {sum(k.v)} output values where the mask is true")
        elif isinstance(k, Vec) and k.exact and all(isinstance(i, int) and not isinstance(i, bool) for i in k.v) and not (obj.aligned or obj.fresh) \
                and not (len(k.v) == len(obj.v) and k.v and all(isinstance(i, bool) for i in k.v)):
            # ndarray[<integer array>] = values: scattered to those positions (a repeated position keeps the last value)
            if any(not -len(obj.v) <= i < len(obj.v) for i in k.v):
                raise Raised("IndexError", "index out of bounds in an integer-array store")
            for i, x in zip(k.v, bcast(v, len(k.v))):
                obj.v[i] = x
        elif isinstance(k, Vec):
            newv = bcast(v, len(obj.v))
            obj.v = [nv if m is True else ov for m, ov, nv in zip(k.v, obj.v, newv)]
        elif isinstance(k, int) and not isinstance(k, bool) and accessor not in ("iloc", "iat") and obj.labels is not None and (obj.aligned or obj.fresh) and len(obj.labels) == len(obj.v):
            # a Series with literal integer labels: `ser[k] = v` writes the row labelled k (and appends a new row when no such label exists)
            if k in obj.labels:
                obj.v[obj.labels.index(k)] = v
            else:
                obj.labels = list(obj.labels) + [k]
                obj.v.append(v)
        elif isinstance(k, int) and not isinstance(k, bool):
            if not -len(obj.v) <= k < len(obj.v):
                raise Raised("IndexError", f"index {k} is out of bounds for a store into {len(obj.v)} values")
            obj.v[k] = v
        elif isinstance(k, Term) and k.is_const():
            if not -len(obj.v) <= int(k.cval()) < len(obj.v):
                raise Raised("IndexError", f"index {k} is out of bounds for a store into {len(obj.v)} values")
            obj.v[int(k.cval())] = v
        elif isinstance(k, slice) and k == slice(None, None, None):
            obj.v = bcast(v, len(obj.v))
        elif isinstance(k, slice) and all(x is None or (isinstance(x, int) and not isinstance(x, bool)) for x in (k.start, k.stop, k.step)):
            pos = list(range(len(obj.v)))[k]
            if obj.v and all(isinstance(x, bool) for x in obj.v) and isinstance(v, int) and not isinstance(v, bool) and v in (0, 1):
                v = bool(v)                         # a store into a boolean array converts to bool
            newv = bcast(v, len(pos))
            for i, x in zip(pos, newv):
                obj.v[i] = x
        else:
            raise Undecided("vector store with key " + repr(k))
        return
    if isinstance(obj, Row):
        if isinstance(k, str):
            obj._d[k] = v
            if k not in obj._fields:
                obj._fields.append(k)
            return
    if isinstance(obj, (dict, list)):
        try:
            obj[k] = v
        except (TypeError, IndexError) as e:
            raise Undecided(f"store failed: {e}")
        return
    if isinstance(obj, Opaque):
        return
    raise Undecided(f"store into {type(obj).__name__}")


# ---------------------------------------------------------------------- attributes of values
def value_attr(it, obj, attr):
    if isinstance(obj, Vec):
        if attr in ("values", "array") and (obj.fresh or obj.aligned):
            return obj.view()
        if attr in ("values", "str", "dt", "array", "T"):
            return obj
        if attr in ("iat", "iloc", "loc", "at"):
            return BoundMethod(obj, attr)
        if attr == "index":
            if obj.labels is not None and len(obj.labels) == len(obj.v):
                ix = IndexVals(len(obj.v), list(obj.labels))
                ix.kind = obj.aligned if isinstance(obj.aligned, str) else "range" if obj.fresh else "any"
                return ix
            if obj.fresh or isinstance(obj.aligned, str):
                ix = IndexVals(len(obj.v))                   # labels not literal: the index of the table the Series was derived from
                ix.kind = "range" if obj.fresh else obj.aligned
                return ix
            return Opaque("index")
        if attr == "size":
            return NRows(len(obj.v)) if obj.v else 0
        if attr == "dtype":
            return vec_dtype(obj)
        if attr == "is_monotonic_increasing":
            if obj.exact and _lits(obj.v) is not None:
                lv = _lits(obj.v)
                return all(a <= b for a, b in zip(lv, lv[1:]))
            return Opaque("is_monotonic_increasing")
        if attr == "empty":
            return len(obj.v) == 0
        return BoundMethod(obj, attr)
    if isinstance(obj, DF):
        if attr in ("loc", "iloc", "at", "iat"):
            return BoundMethod(obj, attr)
        if attr == "columns":
            return ColList(c for c in obj.cols if not c.startswith("__"))
        if attr == "index":
            labels = obj.labels
            if labels is None and obj.exact and obj.index == "range":
                labels = list(range(obj.n))            # literally these rows under the default 0..n-1 index
            ix = IndexVals(obj.n, labels)
            ix.kind = obj.index                       # the index kind of the table it belongs to
            return ix
        if attr == "empty":
            return obj.n == 0
        if attr == "values":
            names = [c for c in obj.cols if not c.startswith("__")]
            return Matrix(names, [obj.cols[c].v for c in names])
        if attr in obj.cols:
            return _col(obj, attr)
        return BoundMethod(obj, attr)
    if isinstance(obj, Row):
        if attr in ("_replace", "_asdict"):
            return getattr(obj, attr)
        if attr in obj._d:
            return obj._d[attr]
        if attr == "_fields" and not obj._d.get("__class__") and not obj._d.get("__super__"):
            return tuple(obj._fields)                         # a namedtuple row (itertuples): its field names
        if attr == "index" and not obj._d.get("__class__") and not obj._d.get("__super__"):
            return ColList(f_ for f_ in obj._fields)         # a table row (pd.Series): its index is the column names
        if obj._d.get("__super__"):
            slf = obj._d["self"]
            if isinstance(slf, GA):
                cls = it.prog.mro(slf.cls)
                qn = obj._d.get("cls") or ""
                owner = qn.split(".")[-2] if qn.count(".") >= 2 else slf.cls
                chain = it.prog.mro(owner)[1:]
                for c in chain:
                    m = it.prog.classes[c].methods.get(attr)
                    if m:
                        return Closure(m.node, {}, m.mod, m.qn, self_obj=slf)
            raise Undecided(f"super().{attr}")
        if obj._d.get("__class__"):
            cname = obj._d["__class__"]
            if cname in it.prog.classes:
                fm = it.prog.find_method(cname, attr)
                if fm is not None and "property" in fm.decorators:
                    return it.call_function(fm.mod, fm.node, [obj], {}, qn=fm.qn)
                if fm is None:
                    # a class-level attribute (a constant shared by the instances, or the default of an annotated field)
                    for c in it.prog.mro(cname):
                        ci = it.prog.classes.get(c)
                        if ci is None:
                            continue
                        for st in ci.node.body:
                            if isinstance(st, ast.Assign) and any(isinstance(t, ast.Name) and t.id == attr for t in st.targets):
                                return it.ev(st.value, {"__mod__": ci.mod})
                            if isinstance(st, ast.AnnAssign) and isinstance(st.target, ast.Name) and st.target.id == attr and st.value is not None:
                                return it.ev(st.value, {"__mod__": ci.mod})
                    raise Raised("AttributeError", f"{cname!r} object has no attribute {attr!r}")
            return BoundMethod(obj, attr)
        raise Raised("AttributeError", attr)
    if isinstance(obj, dict):
        return BoundMethod(obj, attr)
    if isinstance(obj, Opaque):
        return Opaque(f"{obj.why}.{attr}", obj.prov)
    if isinstance(obj, (str, list, tuple, set, frozenset, FStr, Term, OrderVal, int, float, Fr, slice)) or obj is None:
        if isinstance(obj, slice) and attr in ("start", "stop", "step"):
            return getattr(obj, attr)
        # (str only: lists / tuples also stand in for arrays and tags in the library model, where a missing attribute is the model's gap)
        if isinstance(obj, str) and not isinstance(obj, FStr) and not hasattr(obj, attr):
            raise Raised("AttributeError", f"'{type(obj).__name__}' object has no attribute '{attr}'")
        return BoundMethod(obj, attr)
    if isinstance(obj, (Closure,)):
        if attr == "__name__":
            return getattr(obj.node, "name", "<lambda>")
        if attr == "__doc__":
            return ast.get_docstring(obj.node) if not isinstance(obj.node, ast.Lambda) else None
    if isinstance(obj, _TypeProxy) and obj.pytype is dict and attr == "fromkeys":
        return lambda keys, value=None: dict.fromkeys(list(it.iterate(keys)), value)
    if isinstance(obj, _TypeProxy) and obj.pytype in (str, int, float) and callable(getattr(obj.pytype, attr, None)):
        # unbound method of a builtin type (str.isdigit, str.lower, ...): concrete receivers only
        def unbound(x, *a, _t=obj.pytype, _n=attr, **k):
            if not isinstance(x, _t) or isinstance(x, bool) and _t is not bool:
                raise Undecided(f"{_t.__name__}.{_n} on {x!r}")
            return getattr(_t, _n)(x, *a, **k)
        return unbound
    if hasattr(obj, attr) and not isinstance(obj, (BoundMethod,)):
        return getattr(obj, attr)
    raise Undecided(f"attribute {attr} of {type(obj).__name__}")


def _vec_reduce_sum(v):
    if all(isinstance(x, bool) for x in v.v):
        return sum(1 for x in v.v if x)
    r = Term.const(0)
    for x in v.v:
        if is_nan(x):
            continue
        r = t_add(r, T(x))
    return r


# leading parameters of the pandas / numpy methods the model reads positionally: a call that names them (`s.isin(values=...)`, `t.loc...`, `a.searchsorted(v=..)`) is
# normalised to the positional form first (keywords that continue the positional arguments, in this order)
LIB_SIGS = {
    # (only methods whose model reads these arguments by position; the ones that look a keyword up themselves -- sort_values(by=), fillna(value=), itertuples(index=),
    #  rolling(window=), groupby(by=), reindex(index= / columns=) -- are left alone)
    "Vec": {"isin": ["values"], "take": ["indices"], "where": ["cond", "other"], "mask": ["cond", "other"], "replace": ["to_replace", "value"], "astype": ["dtype"],
            "map": ["arg"], "apply": ["func"], "between": ["left", "right"], "clip": ["lower", "upper"], "round": ["decimals"], "head": ["n"], "tail": ["n"],
            "lt": ["other"], "le": ["other"], "gt": ["other"], "ge": ["other"], "eq": ["other"], "ne": ["other"], "equals": ["other"], "repeat": ["repeats"],
            "add": ["other"], "sub": ["other"], "mul": ["other"], "div": ["other"], "truediv": ["other"], "floordiv": ["other"], "mod": ["other"], "pow": ["other"]},
    "DF": {"isin": ["values"], "take": ["indices"], "head": ["n"], "tail": ["n"], "astype": ["dtype"], "round": ["decimals"]},
}


def _lib_bind(kind, name, args, kw):
    names = LIB_SIGS.get(kind, {}).get(name)
    if not names or not kw:
        return args, kw
    args, kw = list(args), dict(kw)
    for nm in names[len(args):]:
        if nm in kw:
            args.append(kw.pop(nm))
        else:
            break
    return args, kw


def value_method(it, obj, name, args, kw):
    ai = _ai()
    if name == "__getitem__" and len(args) == 1 and not kw:
        return load_subscript(it, obj, args[0])          # x.__getitem__(k) is x[k]
    if name == "__len__" and not args and not kw:
        return builtin(it, "len")(obj)
    if name == "__contains__" and len(args) == 1 and not kw:
        return ai.compare(ast.In(), args[0], obj)
    if isinstance(obj, Vec):
        args, kw = _lib_bind("Vec", name, args, kw)
        return vec_method(it, obj, name, args, kw)
    if isinstance(obj, DF):
        args, kw = _lib_bind("DF", name, args, kw)
        return df_method(it, obj, name, args, kw)
    if isinstance(obj, dict):
        if name == "get":
            try:
                return load_subscript(it, obj, args[0])
            except Raised:
                return args[1] if len(args) > 1 else None
        if name in ("items", "keys", "values"):
            return list(getattr(obj, name)())
        if name in ("setdefault", "pop", "update", "copy", "clear"):
            return getattr(obj, name)(*args, **kw)
    if isinstance(obj, (set, frozenset)):
        return getattr(obj, name)(*args)
    if isinstance(obj, str):
        if name == "join":
            items = list(it.iterate(args[0]))
            if any(not isinstance(x, str) for x in items):
                parts = []
                for i, x in enumerate(items):
                    if i and obj:
                        parts.append(obj)
                    parts.extend(x.parts if isinstance(x, FStr) else [x if isinstance(x, str) else FVal(x)])
                return FStr(parts)
            return obj.join(items)
        if name == "format":
            if all(isinstance(a, (str, int)) for a in args) and all(isinstance(a, (str, int)) for a in kw.values()):
                return obj.format(*args, **kw)
            return FStr([obj] + [FVal(a) for a in args] + [FVal(a) for a in kw.values()])
        try:
            return getattr(obj, name)(*args, **kw)
        except (TypeError, AttributeError) as e:
            raise Undecided(f"str.{name}: {e}")
    if isinstance(obj, FStr):
        if name in ("strip", "rstrip", "lstrip", "encode"):
            return obj
        raise Undecided(f"method {name} on formatted string")
    if isinstance(obj, Row):
        if name == "_replace":
            return obj._replace(**kw)
        if name == "_asdict":
            return obj._asdict()
        if name == "copy" and "copy" not in obj._d:
            return Row(dict(obj._d), list(obj._fields))
        v = obj._d.get(name)
        if v is not None:
            return it.call(v, args, kw)
        raise Undecided(f"method {name} on row")
    if isinstance(obj, list):
        if name in ("append", "extend", "remove", "insert", "pop", "index", "count", "copy", "reverse", "clear"):
            try:
                if name == "extend":
                    return obj.extend(list(it.iterate(args[0])))
                if name in ("remove", "index", "count"):
                    for i, x in enumerate(obj):
                        if same(x, args[0]):
                            if name == "remove":
                                del obj[i]
                                return None
                            if name == "index":
                                return i
                    if name == "count":
                        return sum(1 for x in obj if same(x, args[0]))
                    raise Raised("ValueError", "not in list")
                return getattr(obj, name)(*args)
            except IndexError:
                raise Raised("IndexError")
        if name == "sort":
            obj[:] = builtin(it, "sorted")(obj, **kw)
            return None
    if isinstance(obj, tuple) and name in ("index", "count"):
        return getattr(obj, name)(*args)
    if isinstance(obj, (Term, OrderVal)) or num(obj):
        if name == "round":
            return builtin(it, "round")(obj, *args)
        if name == "astype":
            return astype(obj, args[0])
        if name in ("item", "copy"):
            return obj
        if name == "is_integer":
            return T(obj).integer
    if isinstance(obj, Opaque):
        return Opaque(f"{obj.why}.{name}()", obj.prov + tuple(p for a in args if isinstance(a, Opaque) for p in a.prov))
    if obj is None:
        raise Raised("AttributeError", f"NoneType.{name}")
    if isinstance(obj, _TypeProxy):
        try:
            f = value_attr(it, obj, name)
        except Undecided:
            raise Undecided(f"{obj}.{name}")
        if callable(f):
            return f(*args, **kw)
        raise Undecided(f"{obj}.{name}")
    if hasattr(obj, name) and callable(getattr(obj, name)) and not isinstance(obj, (BoundMethod, Closure)):
        try:
            return getattr(obj, name)(*args, **kw)
        except StopIteration:
            raise Raised("StopIteration")
    raise Undecided(f"method {name} on {type(obj).__name__}")


# fixed-width integer and reduced-precision float dtypes: name -> (lowest, highest) / None
_NARROW_INT = {}
for _bits, _names in ((8, ("int8", "i1", "byte")), (16, ("int16", "i2", "short")), (32, ("int32", "i4", "intc"))):
    for _n in _names:
        _NARROW_INT[_n] = (-2 ** (_bits - 1), 2 ** (_bits - 1) - 1)
for _bits, _names in ((8, ("uint8", "u1", "ubyte")), (16, ("uint16", "u2", "ushort")), (32, ("uint32", "u4", "uintc"))):
    for _n in _names:
        _NARROW_INT[_n] = (0, 2 ** _bits - 1)
_NARROW_FLOAT = ("float32", "f4", "single", "float16", "f2", "half")


def _dtype_name(ty):
    if isinstance(ty, Module) and ty.name.startswith("np."):
        return ty.name[3:]
    if isinstance(ty, str):
        return ty.lstrip("<>=")
    return None


def astype(x, ty):
    if isinstance(ty, _TypeProxy):
        ty = ty.pytype
    dn = _dtype_name(ty)
    if dn in _NARROW_INT:
        lo, hi = _NARROW_INT[dn]
        if is_nan(x):
            raise Raised("ValueError", "cannot convert NaN to integer")
        if isinstance(x, bool) or num(x):
            v = int(x)
            return (v - lo) % (hi - lo + 1) + lo            # a value outside the type's range wraps around
        t = f_trunc(x)
        if t.lo >= lo and t.hi <= hi:
            return t
        return fatom(f"wrapped_{dn}", [T(x)], lo, hi, True)   # not known to fit: the stored number is the value modulo the type's width
    if dn in _NARROW_FLOAT:
        if isinstance(x, bool) or is_nan(x):
            return int(x) if isinstance(x, bool) else x
        if num(x) and abs(x) < 60000:
            import struct
            code = "e" if dn in ("float16", "f2", "half") else "f"
            if Fr(struct.unpack(code, struct.pack(code, float(x)))[0]) == Fr(x):
                return x                                       # representable as it is
        return fatom(f"rounded_{dn}", [T(x)], T(x).lo, T(x).hi)  # the nearest reduced-precision number, not the value itself
    if ty in ("int", int, "int64", "Int64"):
        if is_nan(x):
            raise Raised("ValueError", "cannot convert NaN to integer")
        if isinstance(x, bool):
            return int(x)
        if num(x):
            return int(x)
        return f_trunc(x)
    if ty in ("float", float, "float64"):
        if isinstance(x, bool):
            return int(x)
        return x
    if ty in ("str", str):
        if isinstance(x, int) and not isinstance(x, bool):
            return str(x)
        return x if isinstance(x, str) else FStr([FVal(x)])
    if ty in ("bool", bool):
        return _ai().truth(x)
    return x


def _lits(vals):
    """the values as plain numbers when every one is a literal number (constant Terms included), else None"""
    out = []
    for x in vals:
        if isinstance(x, bool):
            return None
        if isinstance(x, Term) and x.is_const():
            c = x.cval()
            x = int(c) if c.denominator == 1 else c
        if not num(x):
            return None
        out.append(x)
    return out


def _as_int_vec(obj):
    r = Vec([int(x) for x in obj.v], fresh=obj.fresh, aligned=obj.aligned)
    r.exact, r.labels = obj.exact, obj.labels
    return r


def vec_method(it, obj, name, args, kw):
    ai = _ai()
    if name == "reset_index" and kw.get("drop") is True:
        return Vec(obj.v, fresh=True)          # a new 0..n-1 index
    if name in ("copy", "to_numpy", "tolist", "reset_index", "ravel", "flatten", "squeeze", "to_list"):
        if name == "tolist":
            return list(obj.v)
        r = Vec(obj.v)
        r.exact = obj.exact                                  # the same elements, literally, in a new container
        return r
    if name == "reshape" and not (obj.aligned or obj.fresh) and len(args[0] if len(args) == 1 and isinstance(args[0], (tuple, list)) else args) == 2:
        # a table of rows: np.array(<list of equal-length tuples>).reshape(n, m) / a flat literal array cut into rows of m
        n_, m_ = args[0] if len(args) == 1 and isinstance(args[0], (tuple, list)) else args
        if isinstance(m_, int) and not isinstance(m_, bool) and m_ > 0:
            if obj.v and all(isinstance(r_, (tuple, list)) and len(r_) == m_ for r_ in obj.v):
                rows_ = [tuple(r_) for r_ in obj.v]
            elif obj.exact and not any(isinstance(r_, (tuple, list)) for r_ in obj.v) and len(obj.v) % m_ == 0:
                rows_ = [tuple(obj.v[i:i + m_]) for i in range(0, len(obj.v), m_)]
            else:
                rows_ = None
            if rows_ is not None and (n_ == -1 or (isinstance(n_, int) and n_ == len(rows_)) or (isinstance(n_, NRows) and n_.n == len(rows_))):
                r = Vec(rows_)
                r.exact, r.ncols = obj.exact, m_
                return r
            if rows_ is not None and isinstance(n_, int):
                raise Raised("ValueError", f"cannot reshape array of size {len(rows_) * m_} into shape ({n_},{m_})")
        raise Undecided(f"reshape to {(n_, m_)!r}")
    if name == "reshape" and not (obj.aligned or obj.fresh):
        shape = args[0] if len(args) == 1 and isinstance(args[0], (tuple, list)) else args
        if len(shape) == 1 and (shape[0] == -1 or (isinstance(shape[0], int) and not isinstance(shape[0], bool) and shape[0] == len(obj.v))
                                or (isinstance(shape[0], NRows) and shape[0].n == len(obj.v))):
            r = Vec(obj.v)                        # the same elements as a 1-D array of that many elements
            r.exact = obj.exact
            return r
        if len(shape) == 1 and isinstance(shape[0], int) and obj.exact:
            raise Raised("ValueError", f"cannot reshape array of size {len(obj.v)} into shape ({shape[0]},)")
    if name == "between" and len(args) >= 2:
        incl = args[2] if len(args) > 2 else kw.get("inclusive", "both")
        if incl not in ("both", "left", "right", "neither"):
            raise Undecided(f"Series.between(inclusive={incl!r})")
        lo_op = ast.GtE() if incl in ("both", "left") else ast.Gt()
        hi_op = ast.LtE() if incl in ("both", "right") else ast.Lt()
        return lift1(lambda x: False if is_nan(x) else (ai.truth(ai.compare(lo_op, x, args[0])) and ai.truth(ai.compare(hi_op, x, args[1]))), obj)
    if name == "astype":
        return lift1(lambda x: x if is_nan(x) and args[0] not in ("int", int) else astype(x, args[0]), obj)
    if name == "abs":
        return lift1(lambda x: x if is_nan(x) or isinstance(x, Opaque) else (abs(x) if num(x) else f_abs(x)), obj)
    if name == "round":
        return lift1(lambda x: x if is_nan(x) or isinstance(x, Opaque) else (round(x) if num(x) and not args else (f_round(x) if not args else fatom("round_nd", [T(x), T(args[0])], T(x).lo, T(x).hi))), obj)
    if name in ("isnull", "isna"):
        return lift1(is_nan, obj)
    if name in ("notnull", "notna"):
        return lift1(lambda x: not is_nan(x), obj)
    if name == "fillna":
        fill = args[0] if args else kw.get("value")
        return lift2(lambda x, f: f if is_nan(x) else x, obj, fill)
    if name == "sum":
        return _vec_reduce_sum(obj)
    if name == "mean":
        vals = [x for x in obj.v if not is_nan(x)]
        if not vals:
            return None
        return t_div(_vec_reduce_sum(Vec(vals)) if not all(isinstance(x, bool) for x in vals) else T(sum(vals)), Term.const(len(vals)))
    if name in ("max", "min"):
        vals = [T(x) for x in obj.v if not is_nan(x)]
        if len(vals) == 1:
            return vals[0]
        if vals and all(v.is_const() for v in vals):
            return Term.const((max if name == "max" else min)(v.cval() for v in vals))
        if vals and all(same(v, vals[0]) for v in vals[1:]):
            return vals[0]
        # one element provably dominates the others by interval separation (e.g. the ends of sorted, non-nested rows): it is the extreme
        for i, v in enumerate(vals):
            others = vals[:i] + vals[i + 1:]
            if (name == "max" and all(v.lo >= o.hi for o in others)) or (name == "min" and all(v.hi <= o.lo for o in others)):
                return v
        return fatom("v" + name, vals)
    if name == "median":
        vals = [T(x) for x in obj.v if not is_nan(x)]
        if not vals:
            return None
        if len(vals) == 1 or all(v.same(vals[0]) for v in vals):
            return vals[0]
        if all(v.is_const() for v in vals):
            cs = sorted(v.cval() for v in vals)
            m = len(cs)
            return Term.const(cs[m // 2] if m % 2 else (cs[m // 2 - 1] + cs[m // 2]) / 2)
        return fatom("median", vals)
    if name == "drop_duplicates":
        out = []
        for x in obj.v:
            if not any(same(x, y) for y in out):
                out.append(x)
        return Vec(out)
    if name == "unique":
        out = vec_method(it, obj, "drop_duplicates", [], {})
        out.exact = obj.exact
        return out
    if name == "nunique":
        return len(vec_method(it, obj, "drop_duplicates", [], {}).v)
    if name == "any":
        if all(isinstance(v, bool) or v is None for v in obj.v):
            return any(v is True for v in obj.v)
        return any(ai.truth(v) for v in obj.v if not is_nan(v))
    if name == "all":
        return all(v is True for v in obj.v)
    if name == "clip":
        lo = args[0] if args else kw.get("lower")
        hi = args[1] if len(args) > 1 else kw.get("upper")

        def clip(x, lo_, hi_):
            if is_nan(x):
                return x
            r = x
            if lo_ is not None:
                r = f_max(r, lo_)
            if hi_ is not None:
                r = f_min(r, hi_)
            return r
        for bound in (lo, hi):
            ai.label_hazard(obj, bound, "clip")
        los, his = bcast(lo, len(obj.v)), bcast(hi, len(obj.v))
        r = Vec((ai.CTX.per_class(i, clip, x, l, h) for i, (x, l, h) in enumerate(zip(obj.v, los, his))), fresh=obj.fresh, aligned=obj.aligned)
        r.exact, r.labels = obj.exact, obj.labels            # element-wise: the same rows under the same labels
        return r
    if name == "replace":
        if len(args) == 2:
            return lift1(lambda x: args[1] if (not is_nan(x) and not isinstance(x, Opaque) and _eq(x, args[0])) else x, obj)
        if len(args) == 1 and isinstance(args[0], dict):
            def rep(x):
                for k, v in args[0].items():
                    if _eq(x, k):
                        return v
                return x
            return lift1(rep, obj)
    if name == "isin":
        vals = list(it.iterate(args[0]))
        return lift1(lambda x: any(_eq(x, v) for v in vals), obj)
    if name == "match" and args and isinstance(args[0], str):
        import re as _re
        rx = _re.compile(args[0])

        def mt(x):
            if isinstance(x, str):
                return rx.match(x) is not None
            if is_nan(x):
                return kw.get("na", None)
            raise Undecided(".str.match on abstract value")
        return lift1(mt, obj)
    if name in ("startswith", "endswith", "lower", "upper", "strip", "rstrip", "lstrip", "len", "contains", "isdigit", "isnumeric", "isalpha", "title", "capitalize"):
        def sm(x):
            if isinstance(x, bool):
                raise Undecided(f".str.{name} on a boolean")
            if isinstance(x, int) and name in ("isdigit", "isnumeric", "isalpha"):
                return getattr(str(x), name)()          # after .astype(str): the decimal digits of an integer
            if isinstance(x, FStr) and len(x.parts) == 1 and isinstance(x.parts[0], FVal):
                x = x.parts[0].v
                if isinstance(x, int) and not isinstance(x, bool) and name in ("isdigit", "isnumeric", "isalpha"):
                    return getattr(str(x), name)()
            if isinstance(x, Term) and x.integer and x.lo >= 0 and name in ("isdigit", "isnumeric"):
                return True                              # a non-negative integer prints as digits only
            if isinstance(x, str):
                if name == "len":
                    return len(x)
                if name == "contains":
                    return args[0] in x
                return getattr(x, name)(*args)
            raise Undecided(f".str.{name} on abstract value")
        return lift1(sm, obj)
    if name == "diff" and not args and not kw and obj.exact and _lits([x for x in obj.v if x is not None]) is not None:
        # literal numbers, possibly with missing values: a difference involving a missing value is missing
        lv = [None if x is None else _lits([x])[0] for x in obj.v]
        r = Vec(([None] + [None if (a is None or b is None) else b - a for a, b in zip(lv, lv[1:])])[:len(lv)], fresh=obj.fresh, aligned=obj.aligned)
        r.exact, r.labels = True, obj.labels
        return r
    if name in ("apply", "map"):
        f = args[0]
        if isinstance(f, LabelSeries):
            f = f.d
        if isinstance(f, dict):
            return lift1(lambda x: f.get(x, None), obj)
        r = Vec((ai.CTX.per_class(i, lambda x=x: it.call(f, [x], {})) for i, x in enumerate(obj.v)), fresh=obj.fresh, aligned=obj.aligned)
        r.exact, r.labels = obj.exact, obj.labels          # element-wise: same rows under the same labels
        return r
    if name == "items":
        if obj.labels is not None and len(obj.labels) == len(obj.v):
            return list(zip(obj.labels, obj.v))
        return list(enumerate(obj.v))
    if name == "searchsorted" and obj.exact and _lits(obj.v) is not None:
        import bisect
        obj = Vec(_lits(obj.v))
        if any(a > b for a, b in zip(obj.v, obj.v[1:])):
            raise Undecided("searchsorted on a literal column that is not sorted (numpy's result is then unspecified)")
        side = args[1] if len(args) > 1 else kw.get("side", "left")
        f = bisect.bisect_left if side == "left" else bisect.bisect_right
        q = args[0]
        if isinstance(q, Vec):
            if not all(num(x) and not isinstance(x, bool) for x in q.v):
                raise Undecided("searchsorted with abstract query values")
            r = Vec([f(obj.v, x) for x in q.v])
            r.exact = True
            return r
        if isinstance(q, (list, tuple)) and all(num(x) and not isinstance(x, bool) for x in q):
            r = Vec([f(obj.v, x) for x in q])
            r.exact = True
            return r
        if num(q) and not isinstance(q, bool):
            return f(obj.v, q)
        raise Undecided(f"searchsorted query {q!r}")
    if name in ("argmax", "argmin", "idxmax", "idxmin") and obj.exact and obj.v and _lits(obj.v) is not None and not args and not kw:
        lv = _lits(obj.v)
        pos = lv.index(max(lv) if "max" in name else min(lv))              # first occurrence, as numpy / pandas
        if name.startswith("idx"):
            if obj.labels is None:
                raise Undecided(f"{name} of a Series of unknown labels")
            return obj.labels[pos]
        return pos
    if name in ("head", "tail") and obj.exact and (not args or (isinstance(args[0], int) and not isinstance(args[0], bool) and args[0] >= 0)):
        n_ = args[0] if args else 5
        sl = slice(0, n_) if name == "head" else slice(max(len(obj.v) - n_, 0), None)
        r = Vec(obj.v[sl], fresh=obj.fresh, aligned=obj.aligned)
        r.exact = True
        if obj.labels is not None:
            r.labels = list(obj.labels[sl])
        return r
    if name in ("add", "sub", "mul", "div", "truediv", "floordiv", "mod", "pow", "radd", "rsub", "rmul", "rtruediv", "rdiv") and len(args) == 1 and not kw:
        # the arithmetic methods of a Series / array are its operators (s.sub(x) is s - x, s.rsub(x) is x - s)
        opn = {"add": ast.Add, "sub": ast.Sub, "mul": ast.Mult, "div": ast.Div, "truediv": ast.Div, "floordiv": ast.FloorDiv, "mod": ast.Mod, "pow": ast.Pow}[name.lstrip("r") if name.startswith("r") and name != "round" else name]()
        return ai.binop(opn, args[0], obj) if name.startswith("r") else ai.binop(opn, obj, args[0])
    if name in ("ne", "eq", "lt", "le", "gt", "ge") and len(args) == 1 and not kw:
        # element-wise comparison methods: a missing value compares unequal to everything (itself included), like the operators
        opn = {"ne": ast.NotEq, "eq": ast.Eq, "lt": ast.Lt, "le": ast.LtE, "gt": ast.Gt, "ge": ast.GtE}[name]()

        def cmp1(a, b):
            if is_nan(a) or is_nan(b):
                return name == "ne"
            return ai.compare(opn, a, b)
        return lift2(cmp1, obj, args[0])
    if name == "shift" and obj.exact and not kw and (not args or (isinstance(args[0], int) and not isinstance(args[0], bool) and args[0] >= 0)):
        k = args[0] if args else 1
        r = Vec(([None] * k + list(obj.v))[:len(obj.v)], fresh=obj.fresh, aligned=obj.aligned)
        r.exact, r.labels = True, obj.labels
        return r
    if name in ("cumsum", "cummax", "cummin") and obj.exact and obj.v and all(isinstance(x, bool) for x in obj.v):
        return vec_method(it, _as_int_vec(obj), name, args, kw)
    if name in ("cumsum", "cummax", "cummin") and obj.exact and _lits(obj.v) is not None:
        # a literal column of plain numbers: the running aggregate is computed
        out, acc = [], None
        for x in _lits(obj.v):
            acc = x if acc is None else {"cumsum": acc + x, "cummax": max(acc, x), "cummin": min(acc, x)}[name]
            out.append(acc)
        r = Vec(out, fresh=obj.fresh, aligned=obj.aligned)
        r.exact, r.labels = True, obj.labels
        return r
    if name == "sort_index" and not args and not kw and obj.labels is not None and len(obj.labels) == len(obj.v) and all(isinstance(l, int) and not isinstance(l, bool) for l in obj.labels):
        order = sorted(range(len(obj.v)), key=lambda i: obj.labels[i])           # stable: rows back in the order of their labels
        r = Vec([obj.v[i] for i in order], aligned=(obj.aligned or "any"))
        r.exact, r.labels = obj.exact, [obj.labels[i] for i in order]
        return r
    if name == "sort_values" and not args and set(kw) <= {"kind", "ascending"} and kw.get("ascending", True) in (True, False) and obj.v \
            and (kw.get("ascending", True) is True or kw.get("kind") in ("stable", "mergesort") or len({repr(x) for x in obj.v}) == len(obj.v)) \
            and (obj.labels is not None or obj.aligned is True or obj.fresh):
        # a literal Series of mutually comparable values under literal labels: stable sort, every value keeps its label
        def plain(x):
            return (isinstance(x, (str, int, Fr)) and not isinstance(x, bool)) or (isinstance(x, float) and x == x) or (isinstance(x, tuple) and all(plain(y) for y in x))
        vals = [(int(x.cval()) if x.cval().denominator == 1 else x.cval()) if isinstance(x, Term) and x.is_const() else x for x in obj.v]
        if all(plain(x) for x in vals):
            labels = list(obj.labels) if obj.labels is not None else list(range(len(vals)))
            try:
                order = sorted(range(len(vals)), key=lambda i: vals[i], reverse=kw.get("ascending", True) is False)          # (stable in either direction)
            except TypeError:
                order = None
            if order is not None:
                r = Vec([obj.v[i] for i in order], aligned="any")
                r.exact, r.labels = True, [labels[i] for i in order]
                return r
    if name == "argsort" and not args and obj.exact and obj.v and not (obj.aligned or obj.fresh):
        # ndarray.argsort on literal, mutually comparable values: the positions in sorted order -- with a stable kind ties keep input order; with the default kind the
        # order of ties is unspecified, so only tie-free data is decided
        lv = _lits(obj.v) if not all(isinstance(x, str) for x in obj.v) else list(obj.v)
        if lv is not None and set(kw) <= {"kind"} and (kw.get("kind") in ("stable", "mergesort") or len(set(lv)) == len(lv)):
            r = Vec(sorted(range(len(lv)), key=lambda i: lv[i]))
            r.exact = True
            return r
    if name in ("cumsum", "cummax", "cummin", "diff", "shift", "rolling", "sort_values", "argsort", "rank", "searchsorted",
                "groupby", "ewm", "expanding", "cumprod", "sample", "nlargest", "nsmallest", "corr"):
        return Opaque(f"mixed:{name}")
    if name == "take" and args and hasattr(args[0], "as_mask"):
        return _maskload(obj, args[0].as_mask())
    if name == "take" and len(args) == 1 and not kw and isinstance(args[0], (Vec, list, tuple)) and obj.exact:
        pos = list(args[0].v) if isinstance(args[0], Vec) else list(args[0])
        if all(isinstance(i, int) and not isinstance(i, bool) and -len(obj.v) <= i < len(obj.v) for i in pos):
            r = Vec([obj.v[i] for i in pos], aligned=("any" if (obj.aligned or obj.fresh) else False))
            r.exact = True
            if obj.labels is not None and len(obj.labels) == len(obj.v):
                r.labels = [obj.labels[i] for i in pos]
            return r
    if name == "equals":
        o = args[0]
        return isinstance(o, Vec) and len(o.v) == len(obj.v) and all(same(a, b) for a, b in zip(obj.v, o.v))
    if name == "where":
        cond, other = args[0], (args[1] if len(args) > 1 else None)
        return Vec(x if c is True else o for x, c, o in zip(obj.v, bcast(cond, len(obj.v)), bcast(other, len(obj.v))))
    if name == "mask":
        cond, other = args[0], (args[1] if len(args) > 1 else None)
        return Vec(o if c is True else x for x, c, o in zip(obj.v, bcast(cond, len(obj.v)), bcast(other, len(obj.v))))
    if name == "count":
        return sum(1 for x in obj.v if not is_nan(x))
    if name == "dropna":
        return Vec([x for x in obj.v if not is_nan(x)])
    if name == "extract":
        rx = args[0]
        if hasattr(rx, "search") and all(isinstance(x, str) for x in obj.v):
            names = list(rx.groupindex) or [str(i) for i in range(rx.groups)]
            cols = {nm: [] for nm in names}
            for x in obj.v:
                m = rx.search(x)
                for nm in names:
                    cols[nm].append(m.group(nm) if (m and nm in rx.groupindex) else (m.group(int(nm) + 1) if m else None))
            return DF({k: Vec(v) for k, v in cols.items()}, len(obj.v))
        return Opaque("str.extract")
    if name == "std" or name == "var":
        return fatom(name, [T(x) for x in obj.v if not is_nan(x)], 0.0, INF)
    raise Undecided(f"Series method {name}")


def _eq(a, b):
    try:
        return _ai().compare(ast.Eq(), a, b) is True
    except Undecided:
        return False


def df_method(it, obj, name, args, kw):
    ai = _ai()
    if name == "copy":
        return obj.copy()
    if name == "round" and len(args) <= 1 and set(kw) <= {"decimals"}:
        # DataFrame.round(decimals): every numeric column, element-wise; whole numbers and text stay as they are
        nd = args[0] if args else kw.get("decimals", 0)
        d = obj.copy()
        for c, col in list(d.cols.items()):
            def rnd(x, nd=nd):
                if is_nan(x) or isinstance(x, (str, bool, bytes, Opaque)) or (isinstance(x, int)) or (isinstance(x, Term) and x.integer):
                    return x
                if num(x) and isinstance(nd, int):
                    return Fr(round(Fr(str(x)) if isinstance(x, float) else Fr(x), nd))
                if isinstance(x, (Term, OrderVal)):
                    return fatom("round_nd", [T(x), T(nd)], T(x).lo, T(x).hi)
                return x
            new = Vec([rnd(x) for x in col.v], fresh=col.fresh, aligned=col.aligned)
            new.exact, new.labels = col.exact, col.labels
            d.cols[c] = new
        return d
    if name == "set_index" and len(args) == 1 and isinstance(args[0], IndexVals) and not kw:
        d = obj.copy()
        d.index = "any"
        if args[0].labels is not None:
            if len(args[0].labels) != obj.n:
                raise Raised("ValueError", "Length mismatch: set_index with an index of another length")
            d.labels = list(args[0].labels)
        else:
            d.labels = None
        return d
    if name == "reindex" and len(args) == 1 and not kw and isinstance(args[0], IndexVals):
        args, kw = [], {"index": args[0]}                    # reindex(labels): the row labels, positionally
    if name == "reindex" and isinstance(kw.get("index"), IndexVals) and kw["index"].labels is not None and obj.exact and len(kw) == 1 and not args \
            and (obj.labels is not None or obj.index == "range"):
        # rows looked up by label; a label the table does not have gives a row of missing values (duplicated labels refuse)
        own = list(obj.labels) if obj.labels is not None else list(range(obj.n))
        if len(set(own)) != len(own):
            raise Raised("ValueError", "cannot reindex on an axis with duplicate labels")
        pos = [own.index(l) if l in own else None for l in kw["index"].labels]
        d = DF({c: Vec([v.v[i] if i is not None else None for i in pos], aligned=True) for c, v in obj.cols.items()}, len(pos), "any")
        d.exact, d.labels = True, list(kw["index"].labels)
        return d
    if name == "reindex" and "columns" in kw:
        out = DF({c: obj.cols.get(c, Vec([None] * obj.n)) for c in kw["columns"]}, obj.n, obj.index, obj.pop)
        out.exact, out.labels = obj.exact, (list(obj.labels) if obj.labels is not None else None)
        return out
    if name == "rename" and "columns" in kw:
        m = kw["columns"]
        out = DF({m.get(c, c): v for c, v in obj.cols.items()}, obj.n, obj.index, obj.pop)
        out.exact, out.labels = obj.exact, (list(obj.labels) if obj.labels is not None else None)
        return out
    if name == "assign":
        d = obj.copy()
        for k, v in kw.items():
            if isinstance(v, (Closure,)):
                v = it.call(v, [d], {})
            if isinstance(v, (list, tuple)) and len(v) == d.n:
                v = Vec(v)
            if isinstance(v, Vec) and (v.fresh or v.aligned):
                store_subscript(it, d, k, v)          # a Series is aligned by label, exactly like `frame[col] = series` (same hazards)
            else:
                d.cols[k] = Vec(bcast(v, d.n), aligned=True)
        return d
    if name == "itertuples":
        fields = [c for c in obj.cols if not c.startswith("__")]
        idx = kw.get("index", True)
        rows = []
        keep = obj.cols.get("__keep__")
        for i in range(obj.n):
            if keep is not None and keep.v[i] is False:
                continue                    # a row class that a boolean selection definitely dropped is not iterated
            d = {c: obj.cols[c].v[i] for c in fields}
            if idx:
                rows.append(Row(dict({"Index": i}, **d), ["Index"] + fields))
            else:
                rows.append(Row(d, fields))
            rows[-1].__dict__["_exact"] = bool(getattr(obj, "exact", False))
        return rows
    if name == "iterrows":
        fields = [c for c in obj.cols if not c.startswith("__")]
        return [(i, Row({c: obj.cols[c].v[i] for c in fields}, fields)) for i in range(obj.n)]
    if name == "apply" and kw.get("axis") == 1:
        f = args[0]
        fields = [c for c in obj.cols if not c.startswith("__")]
        return Vec(ai.CTX.per_class(i, lambda i=i: it.call(f, [Row({c: obj.cols[c].v[i] for c in fields}, fields)], {})) for i in range(obj.n))
    if name == "fillna":
        fill = args[0] if args else kw.get("value")
        if isinstance(fill, dict):
            tgt = obj if kw.get("inplace") else obj.copy()
            for c, f in fill.items():
                if c in tgt.cols:
                    tgt.cols[c] = lift1(lambda x, f=f: f if is_nan(x) else x, tgt.cols[c])
            return None if kw.get("inplace") else tgt
    if name == "reset_index":
        if kw.get("inplace"):
            obj.index = "range"
            return None
        d = obj.copy()
        d.index = "range"
        return d
    if name == "pop" and len(args) == 1 and not kw and isinstance(args[0], str):
        # DataFrame.pop(col): the column is handed back and removed from the frame, in place
        if args[0] not in obj.cols:
            raise Raised("KeyError", args[0])
        col = _col(obj, args[0])
        del obj.cols[args[0]]
        return col
    if name == "drop" and ("index" in kw or (args and kw.get("axis", 0) in (0, "index") and "columns" not in kw)) and set(kw) <= {"index", "axis", "labels"}:
        # rows removed by index LABEL
        idx = kw.get("index", kw.get("labels", args[0] if args else None))
        if isinstance(idx, MaskIdx):
            if obj.index != "range":
                raise Raised("IndexMisalignment", "row positions (np.flatnonzero / np.nonzero of a mask) used as index labels in `.drop(index=rows)` of a table whose index is not known "
                             "to be 0..n-1: the rows carrying those numbers as labels are removed (or a KeyError is raised), not the rows at those positions")
            return df_select(obj, Vec([not (m is True) if isinstance(m, bool) else None for m in idx.mask.v]))
        if isinstance(idx, (Vec, list, tuple)) and obj.exact and (obj.labels is not None or obj.index == "range"):
            want = list(idx.v) if isinstance(idx, Vec) else list(idx)
            own = list(obj.labels) if obj.labels is not None else list(range(obj.n))
            if all(isinstance(x, int) and not isinstance(x, bool) for x in want):
                missing = [x for x in want if x not in own]
                if missing:
                    raise Raised("KeyError", f"{missing} not found in axis")
                keep = Vec([l not in want for l in own])
                keep.exact = True
                return df_select(obj, keep)
        raise Undecided("DataFrame.drop(index=<labels that are not literal>)")
    if name == "drop":
        cols = args[0] if args else kw.get("columns")
        if kw.get("axis") == 1 or "columns" in kw:
            cols = [cols] if isinstance(cols, str) else list(cols)
            out = DF({c: v for c, v in obj.cols.items() if c not in cols}, obj.n, obj.index)
            out.exact, out.labels = obj.exact, obj.labels
            return out
    if name == "dropna":
        subset = kw.get("subset")
        cols = list(subset) if subset else [c for c in obj.cols if not c.startswith("__")]
        if any(is_nan(x) for c in cols if c in obj.cols for x in obj.cols[c].v):
            mask = Vec(not any(is_nan(obj.cols[c].v[i]) for c in cols if c in obj.cols) for i in range(obj.n))
            return df_select(obj, mask)
        return obj.copy()
    if name == "sort_values" and obj.exact:
        by = kw.get("by", args[0] if args else None)
        by = [by] if isinstance(by, str) else list(by)
        keys = []
        for b in by:
            if b not in obj.cols:
                raise Raised("KeyError", b)
            col = obj.cols[b].v
            lit = _lits(col)
            if lit is None:
                if all(isinstance(x, (str, tuple)) for x in col):
                    lit = list(col)
                else:
                    lit = None
            keys.append(lit)
        if all(k is not None for k in keys):
            asc = kw.get("ascending", True)
            rowkeys = list(zip(*keys)) if obj.n else []
            stable = len(by) > 1 or kw.get("kind") in ("mergesort", "stable")
            if not stable and len(set(rowkeys)) != len(rowkeys):
                raise Undecided("sort_values with ties under a non-stable sort kind")
            try:
                order = sorted(range(obj.n), key=lambda i: rowkeys[i], reverse=(asc is False))
            except TypeError:
                raise Undecided("sort_values over keys that do not compare")
            if asc is False and stable:
                # pandas keeps ties in input order also when descending
                order = sorted(range(obj.n), key=lambda i: rowkeys[i])
                groups, cur = [], None
                for i in order:
                    if cur is not None and rowkeys[i] == rowkeys[cur[-1]]:
                        cur.append(i)
                    else:
                        cur = [i]
                        groups.append(cur)
                order = [i for g in reversed(groups) for i in g]
            d = DF({c: Vec([v.v[i] for i in order], aligned=True) for c, v in obj.cols.items()}, obj.n, "any")
            d.exact = True
            labels = obj.labels if obj.labels is not None else (list(range(obj.n)) if obj.index == "range" else None)
            d.labels = [labels[i] for i in order] if labels is not None else None
            return d
    if name == "sort_values":
        d = obj.copy()
        d.index = "sorted"
        return d
    if name == "to_csv":
        return None
    if name == "groupby" and getattr(obj, "exact", False):
        by = kw.get("by", args[0] if args else None)
        if isinstance(by, (list, tuple)) and by and all(isinstance(b, str) and b in obj.cols for b in by) and \
                all(isinstance(x, (str, int)) and not isinstance(x, bool) for b in by for x in obj.cols[b].v):
            rowkeys = list(zip(*[obj.cols[b].v for b in by])) if obj.n else []
            keys = []
            for k in rowkeys:
                if k not in keys:
                    keys.append(k)
            if kw.get("sort", True):
                keys = sorted(keys)
            return GroupList(obj, list(by), [((k if len(by) > 1 else k[0]), df_select(obj, Vec([rk == k for rk in rowkeys]))) for k in keys])
        if isinstance(by, str) and by in obj.cols and all(isinstance(x, str) for x in obj.cols[by].v):
            keys = []
            for x in obj.cols[by].v:
                if x not in keys:
                    keys.append(x)
            if kw.get("sort", True):
                keys = sorted(keys)
            return GroupList(obj, by, [(k, df_select(obj, Vec([x == k for x in obj.cols[by].v]))) for k in keys])
    if name == "groupby" and obj.n == 1:
        by = kw.get("by", args[0] if args else None)
        if isinstance(by, str) and by in obj.cols:
            return [(obj.cols[by].v[0], obj)]
    if name in ("groupby", "merge", "join", "pivot", "rolling", "duplicated", "sample"):
        return Opaque(f"mixed:{name}")
    if name == "get":
        return obj.cols.get(args[0], args[1] if len(args) > 1 else None)
    if name == "head":
        return obj
    if name == "reindex":
        raise Undecided(f"DataFrame method reindex(args={[type(a).__name__ + ':' + repr(getattr(a, 'labels', None)) for a in args]}, kw={list(kw)}) on exact={obj.exact} labels={obj.labels} index={obj.index}")
    raise Undecided(f"DataFrame method {name}")


# ---------------------------------------------------------------------- external modules
def ext_attr(it, modname, attr):
    full = f"{modname}.{attr}"
    consts = {"np.nan": NAN, "np.inf": INF, "math.inf": INF, "np.newaxis": None, "math.pi": Fr(355, 113), "np.pi": Fr(355, 113), "np.float64": _TypeProxy(float, lambda x=0.0: x),
              "np.NaN": NAN, "math.nan": NAN, "sys.float_info.epsilon": Fr(1, 2 ** 52), "os.curdir": ".", "os.pardir": "..", "os.sep": "/", "os.path.sep": "/", "os.extsep": ".", "os.linesep": "\n"}
    if full in consts:
        return consts[full]
    if modname == "re" and attr in ("IGNORECASE", "I", "MULTILINE", "M", "DOTALL", "S", "VERBOSE", "X", "ASCII", "A"):
        import re as _re
        return getattr(_re, attr)                       # a flag of the real `re` engine (patterns are compiled and matched by it on literal strings)
    return Module(full)


def parts_exact(it, parts):
    try:
        return all(isinstance(p, Vec) and p.exact for p in it.iterate(parts))
    except Exception:
        return False


def _np_elem(fn):
    def f(it, x, *a, **k):
        if isinstance(x, Opaque):
            return Opaque("np", x.prov)
        return lift1(lambda v: v if is_nan(v) else fn(v), x)
    return f


def ext_call(it, dotted, args, kw):
    ai = _ai()
    root = dotted.split(".")[0]
    if root in ("logging", "warnings", "atexit", "time", "sys", "gc"):
        return None
    name = dotted
    if name in ("np.zeros", "np.ones", "np.empty", "np.zeros_like", "np.ones_like", "np.empty_like"):
        fill = 0.0 if "zeros" in name else 1.0
        dt = kw.get("dtype", args[1] if len(args) > 1 else None)
        if isinstance(dt, Module) and dt.name in ("np.bool_", "np.bool") or (isinstance(dt, _TypeProxy) and dt.pytype is bool) or dt == "bool":
            fill = "zeros" not in name
        a0 = args[0]
        if isinstance(a0, NRows):
            return Vec([fill] * a0.n)
        if isinstance(a0, Vec):
            r = Vec([fill] * len(a0.v))
            r.exact = a0.exact                               # as many elements as the array it is shaped after
            return r
        if isinstance(a0, int):
            r = Vec([fill] * a0)
            r.exact = True                                   # a literal length
            return r
        return Opaque(name)
    if name in ("np.repeat", "np.full"):
        val, cnt = (args[0], args[1]) if name == "np.repeat" else (args[1], args[0])
        if isinstance(cnt, NRows):
            return Vec([val] * cnt.n)
        if isinstance(cnt, int):
            r = Vec([val] * cnt)
            r.exact = True
            return r
        return Opaque(name)
    if name == "np.arange" and len(args) in (2, 3) and not kw and all(isinstance(a_, int) and not isinstance(a_, bool) for a_ in args) and (len(args) == 2 or args[2] != 0):
        r = Vec(list(range(*args)))                          # literal bounds (and step)
        r.exact = True
        return r
    if name == "np.minimum.accumulate" and len(args) == 1 and not kw and isinstance(args[0], Vec):
        lv = _lits(args[0].v) if args[0].v else []
        if lv is None:
            raise Undecided("np.minimum.accumulate of values that are not literal")
        out_, cur_ = [], None
        for x_ in lv:
            cur_ = x_ if cur_ is None or x_ < cur_ else cur_
            out_.append(cur_)
        r = Vec(out_, fresh=args[0].fresh, aligned=args[0].aligned)
        r.exact, r.labels = args[0].exact, args[0].labels
        return r
    if name == "np.arange" and len(args) == 1 and isinstance(args[0], int) and not isinstance(args[0], bool):
        r = Vec(list(range(args[0])))
        r.exact = True
        return r
    if name in ("np.isnan", "pd.isnull", "pd.isna", "math.isnan"):
        return lift1(is_nan, args[0])
    if name == "np.add.reduceat" and len(args) == 2 and not kw and isinstance(args[0], Vec):
        idx = [int(T(i).cval()) for i in (args[1].v if isinstance(args[1], Vec) else list(it.iterate(args[1])))]
        vals, n = args[0].v, len(args[0].v)
        if any(not 0 <= i < n for i in idx):
            raise Raised("IndexError", "index out of bounds in reduceat")
        out = []
        for j, i in enumerate(idx):
            stop = idx[j + 1] if j + 1 < len(idx) else n
            seg = vals[i:stop] if stop > i else [vals[i]]                      # numpy: a non-increasing pair yields the single element
            out.append(_vec_reduce_sum(Vec(seg)))
        return Vec(out)
    if name == "np.divide" and len(args) == 2 and set(kw) <= {"out", "where"}:
        q = lift2(lambda x, y: ai.binop(ast.Div(), x, y), args[0], args[1]) if "where" not in kw else None
        if "where" in kw:
            a_, b_, wh, dst = args[0], args[1], kw["where"], kw.get("out")
            n = len(a_.v) if isinstance(a_, Vec) else len(b_.v)
            av, bv = bcast(a_, n), bcast(b_, n)
            keep = list(dst.v) if isinstance(dst, Vec) else [None] * n
            res = [ai.binop(ast.Div(), x, y) if m is True else k_ for x, y, m, k_ in zip(av, bv, bcast(wh, n), keep)]
            if isinstance(dst, Vec):
                dst.v = res
                return dst
            return Vec(res)
        if isinstance(kw.get("out"), Vec):
            kw["out"].v = list(q.v)
            return kw["out"]
        return q
    if name in ("scipy.stats.norm.ppf", "stats.norm.ppf") and len(args) == 1 and not kw:
        q = T(args[0])
        if not q.is_const() or not 0 < q.cval() < 1:
            raise Undecided("norm.ppf of a non-literal probability")
        import statistics
        return Fr(repr(round(statistics.NormalDist().inv_cdf(float(q.cval())), 9)))          # the standard normal quantile, to 9 decimals (a library constant, not repository code)
    if name == "np.flatnonzero" and args and isinstance(args[0], Vec) and all(isinstance(x, bool) for x in args[0].v):
        if not args[0].exact:
            return MaskIdx(args[0])                  # one slot per row class: the positions where the mask holds, kept as the mask (like np.nonzero(mask)[0])
        r = Vec([i for i, x in enumerate(args[0].v) if x])
        r.exact = True
        return r
    _NP_BIN = {"np.greater": ast.Gt, "np.greater_equal": ast.GtE, "np.less": ast.Lt, "np.less_equal": ast.LtE, "np.equal": ast.Eq, "np.not_equal": ast.NotEq,
               "np.add": ast.Add, "np.subtract": ast.Sub, "np.multiply": ast.Mult, "np.divide": ast.Div, "np.true_divide": ast.Div, "np.mod": ast.Mod, "np.remainder": ast.Mod,
               "np.floor_divide": ast.FloorDiv, "np.power": ast.Pow, "np.logical_and": ast.BitAnd, "np.logical_or": ast.BitOr, "np.bitwise_and": ast.BitAnd, "np.bitwise_or": ast.BitOr}
    if name in _NP_BIN and len(args) == 2 and not kw:
        # the binary ufuncs are the operators, element by element
        opn = _NP_BIN[name]()
        a_, b_ = (x.view() if isinstance(x, Vec) and (x.aligned or x.fresh) else x for x in args)
        if isinstance(opn, (ast.Gt, ast.GtE, ast.Lt, ast.LtE, ast.Eq, ast.NotEq)):
            return _ai().compare(opn, a_, b_)
        return _ai().binop(opn, a_, b_)
    if name == "np.fromiter" and args:
        vals = list(it.iterate(args[0]))
        cnt = kw.get("count", args[2] if len(args) > 2 else -1)
        if isinstance(cnt, NRows):
            cnt = -1
        if isinstance(cnt, int) and not isinstance(cnt, bool) and cnt >= 0:
            if len(vals) < cnt:
                raise Raised("ValueError", "iterator too short")
            vals = vals[:cnt]
        r = Vec(vals)
        return r
    if name == "np.lexsort" and len(args) == 1 and not kw:
        keys = [k_ for k_ in it.iterate(args[0])]
        cols_ = []
        for k_ in keys:
            if not isinstance(k_, Vec) or not k_.exact:
                raise Undecided(f"np.lexsort of a column that is not literal: {type(k_).__name__} exact={getattr(k_, 'exact', None)} {repr(k_)[:60]}")
            lv = list(k_.v) if all(isinstance(x, str) for x in k_.v) else _lits(k_.v)
            if lv is None:
                raise Undecided("np.lexsort of a column that is not literal")
            cols_.append(lv)
        if cols_ and len({len(c_) for c_ in cols_}) == 1:
            n_ = len(cols_[0])
            try:
                order = sorted(range(n_), key=lambda i: tuple(c_[i] for c_ in reversed(cols_)))        # the LAST key is the primary one; stable
            except TypeError:
                raise Undecided("np.lexsort of mixed-type keys")
            r = Vec(order)
            r.exact = True
            return r
    if name in ("scipy.stats.rankdata", "stats.rankdata", "rankdata") and args and isinstance(args[0], Vec) and set(kw) <= {"method"} and len(args) <= 2:
        lv = _lits(args[0].v) if args[0].v else []
        meth = kw.get("method", args[1] if len(args) > 1 else "average")
        if lv is None or meth not in ("average", "min", "max"):
            raise Undecided(f"rankdata(method={meth!r}) of values that are not literal")
        lo_ = [1 + sum(1 for y in lv if y < x) for x in lv]
        hi_ = [sum(1 for y in lv if y <= x) for x in lv]
        r = Vec([Fr(l + h, 2) if meth == "average" else (l if meth == "min" else h) for l, h in zip(lo_, hi_)])
        r.exact = args[0].exact
        return r
    if name == "np.digitize" and len(args) == 2 and set(kw) <= {"right"}:
        # for increasing bins: the number of bin edges <= x (right=False) or < x (right=True)
        edges = list(args[1].v) if isinstance(args[1], Vec) else list(args[1])
        lit = _lits(edges)
        if lit is None or any(a >= b for a, b in zip(lit, lit[1:])):
            raise Undecided("np.digitize with bin edges that are not literal and increasing")
        opn = ast.Gt() if kw.get("right") else ast.GtE()

        def dig(x):
            if is_nan(x):
                return len(lit)
            n_ = 0
            for e_ in lit:
                if _ai().truth(_ai().compare(opn, x, e_)):
                    n_ += 1
            return n_
        return lift1(dig, args[0]) if isinstance(args[0], Vec) else dig(args[0])
    if name == "np.count_nonzero" and len(args) == 1 and not kw and isinstance(args[0], Vec):
        if all(isinstance(x, bool) for x in args[0].v):
            # the number of rows a literal mask selects (exact table), or -- one slot per row class -- zero when no class is selected, else some positive count
            if args[0].exact or not any(args[0].v):
                return sum(1 for x in args[0].v if x)
            return NRows(sum(1 for x in args[0].v if x))
        raise Undecided("np.count_nonzero of an undecided mask")
    if name == "np.nonzero" and args and isinstance(args[0], Vec):
        return (MaskIdx(args[0]),)
    if name in ("np.isfinite", "math.isfinite"):
        def fin(x):
            if is_nan(x):
                return False
            if isinstance(x, (Term, OrderVal)) or num(x):
                return not (num(x) and x in (INF, -INF))
            raise Undecided("isfinite of " + repr(x))
        return lift1(fin, args[0])
    if name == "np.average":
        x, w = args[0], kw.get("weights", args[1] if len(args) > 1 else None)
        if not isinstance(x, Vec):
            return Opaque(name)
        if w is None:
            return vec_method(it, x, "mean", [], {})
        num_, den = Term.const(0), Term.const(0)
        for xi, wi in zip(x.v, bcast(w, len(x.v))):
            num_ = t_add(num_, t_mul(T(xi), T(wi)))
            den = t_add(den, T(wi))
        if den.is_const() and den.cval() == 0:
            raise Raised("ZeroDivisionError", "Weights sum to zero")
        return t_div(num_, den)
    if name in ("np.mean", "np.nanmean"):
        return vec_method(it, args[0], "mean", [], {}) if isinstance(args[0], Vec) else Opaque(name)
    if name in ("np.sum", "np.nansum"):
        return vec_method(it, args[0], "sum", [], {}) if isinstance(args[0], Vec) else Opaque(name)
    if name in ("np.median", "np.nanmedian"):
        a0 = args[0]
        if isinstance(a0, (list, tuple)) and len(args) == 1 and not kw:
            if not a0:
                return NAN                                   # the median of nothing is NaN (numpy warns and returns nan)
            lv = _lits(list(a0))
            if lv is not None:
                srt = sorted(lv)
                n_ = len(srt)
                return srt[n_ // 2] if n_ % 2 else Fr(srt[n_ // 2 - 1] + srt[n_ // 2], 2)
        if isinstance(a0, Vec) and a0.exact and not a0.v and len(args) == 1 and not kw:
            return NAN
        return vec_method(it, a0, "median", [], {}) if isinstance(a0, Vec) else Opaque(name)
    if name == "np.log2":
        return _np_elem(f_log2)(it, args[0])
    if name == "np.log":
        return _np_elem(lambda v: fatom("ln", [T(v)]))(it, args[0])
    if name == "np.log10":
        return _np_elem(lambda v: fatom("log10", [T(v)]))(it, args[0])
    if name == "np.exp2":
        return _np_elem(f_exp2)(it, args[0])
    if name == "np.exp":
        return _np_elem(lambda v: fatom("exp", [T(v)], 0.0, INF))(it, args[0])
    if name == "np.ceil":
        return _np_elem(f_ceil)(it, args[0])
    if name == "np.floor":
        return _np_elem(f_floor)(it, args[0])
    if name in ("np.abs", "np.absolute", "np.fabs"):
        return _np_elem(f_abs)(it, args[0])
    if name == "np.sqrt":
        return _np_elem(f_sqrt)(it, args[0])
    if name in ("np.round", "np.around", "np.rint"):
        return _np_elem(f_round)(it, args[0])
    if name in ("np.mod", "np.remainder") and len(args) == 2 and num(args[1]) and not isinstance(args[1], bool) and args[1] > 0:
        m = args[1]

        def mod1(x):
            if is_nan(x) or isinstance(x, Opaque):
                return x
            if num(x):
                return x % m
            return fatom("mod", [T(x), T(m)], 0, m)               # Python / numpy remainder by a positive constant lies in [0, m)
        return lift1(mod1, args[0]) if isinstance(args[0], Vec) else mod1(args[0])
    if name == "np.maximum":
        return lift2(lambda a, b: a if is_nan(a) else (b if is_nan(b) else f_max(a, b)), args[0], args[1])
    if name == "np.minimum":
        return lift2(lambda a, b: a if is_nan(a) else (b if is_nan(b) else f_min(a, b)), args[0], args[1])
    if name == "np.clip":
        return vec_method(it, args[0], "clip", list(args[1:]), kw) if isinstance(args[0], Vec) else f_min(f_max(args[0], args[1]), args[2])
    if name == "pd.Index" and len(args) == 1 and set(kw) <= {"dtype"}:
        items = list(it.iterate(args[0]))
        labels = []
        for x in items:
            x = tuple(x) if isinstance(x, (Row, tuple, list)) else x
            if not isinstance(x, (str, int, tuple)) or isinstance(x, tuple) and not all(isinstance(y, (str, int)) for y in x):
                return IndexVals(len(items))                # labels not literal: an index of unknown labels
            labels.append(x)
        return IndexVals(len(items), labels)
    if name == "pd.MultiIndex.from_frame" and len(args) == 1 and isinstance(args[0], DF) and not kw:
        d = args[0]
        names = [c for c in d.cols if not c.startswith("__")]
        cols = [list(d.cols[c].v) if all(isinstance(x, str) for x in d.cols[c].v) else _lits(d.cols[c].v) for c in names]
        if not d.exact or any(c is None for c in cols):
            return Opaque("pd.MultiIndex.from_frame")
        ix = IndexVals(d.n, [tuple(c[i] for c in cols) for i in range(d.n)])          # one tuple label per row; compared lexicographically (strings as strings)
        ix.kind = "any"
        return ix
    if name == "pd.unique" and len(args) == 1 and not kw:
        a0 = args[0]
        if isinstance(a0, (list, tuple)):
            raise Raised("TypeError", "pd.unique (pandas >= 3) accepts arrays and Series only, not a list")
        if isinstance(a0, Vec):
            r = vec_method(it, a0, "drop_duplicates", [], {})
            r.exact = a0.exact
            return r
    if name == "np.unique" and len(args) == 1 and not kw and isinstance(args[0], Vec) and args[0].exact:
        # the sorted distinct values (strings in lexical order: 'chr10' before 'chr2')
        vals = [x for x in args[0].v]
        if all(isinstance(x, str) for x in vals) or (_lits(vals) is not None):
            keyed = vals if all(isinstance(x, str) for x in vals) else _lits(vals)
            out_, seen_ = [], set()
            for k_, x in sorted(zip(keyed, vals), key=lambda p_: p_[0]):
                if k_ not in seen_:
                    seen_.add(k_)
                    out_.append(x)
            r = Vec(out_)
            r.exact = True
            return r
    if name in ("np.all", "np.any") and len(args) == 1 and not kw and isinstance(args[0], Vec):
        return vec_method(it, args[0], name[3:], [], {})
    if name == "np.where" and len(args) == 1 and isinstance(args[0], Vec) and all(isinstance(x, bool) for x in args[0].v):
        r = Vec([i for i, x in enumerate(args[0].v) if x])
        r.exact = True
        return (r,)
    if name == "np.diff" and len(args) == 1 and isinstance(args[0], Vec) and args[0].exact and all(num(x) and not isinstance(x, bool) for x in args[0].v):
        r = Vec([b - a for a, b in zip(args[0].v, args[0].v[1:])])
        r.exact = True
        return r
    if name == "np.array" and args and isinstance(args[0], str) and kw.get("dtype") == "c":
        r = Vec([ch.encode() for ch in args[0]])            # an array of single bytes
        r.exact = True
        return r
    if name == "np.where" and len(args) == 3:
        c = args[0]
        if isinstance(c, Vec):
            n = len(c.v)
            r = Vec(a if m is True else b for m, a, b in zip(c.v, bcast(args[1], n), bcast(args[2], n)))
            r.exact = c.exact and all(x.exact for x in args[1:] if isinstance(x, Vec))
            return r
        return args[1] if ai.truth(c) else args[2]
    if name == "np.select" and len(args) >= 2 and isinstance(args[0], (list, tuple)) and isinstance(args[1], (list, tuple)) and len(args[0]) == len(args[1]) \
            and args[0] and all(isinstance(c, Vec) for c in args[0]):
        # np.select(conditions, choices, default): per element, the choice of the first condition that holds
        n = len(args[0][0].v)
        if any(len(c.v) != n for c in args[0]):
            raise Raised("ValueError", "np.select: conditions of different lengths")
        default = args[2] if len(args) > 2 else kw.get("default", 0)
        choices = [bcast(ch, n) for ch in args[1]] + [bcast(default, n)]
        out = []
        for i in range(n):
            pick = len(args[0])
            for j, c in enumerate(args[0]):
                if c.v[i] is True:
                    pick = j
                    break
                if c.v[i] is not False and c.v[i] is not None:
                    raise Undecided(f"np.select on an undecided condition {c.v[i]!r}")
            out.append(choices[pick][i])
        r = Vec(out)
        r.exact = all(c.exact for c in args[0])
        return r
    if name in ("np.asarray", "np.array", "np.asfarray", "pd.Series", "np.atleast_1d"):
        a0 = args[0] if args else kw.get("data")
        fresh = name == "pd.Series" and "index" not in kw
        if isinstance(a0, range):
            a0 = list(a0)                                    # an array / Series of a literal range: the numbers themselves (like np.arange)
        if name == "pd.Series" and isinstance(a0, dict) and "index" not in kw:
            return LabelSeries(a0)
        if name == "pd.Series" and isinstance(a0, IndexVals) and "index" not in kw:
            if a0.labels is None:
                raise Undecided("pd.Series(<index of unknown labels>)")
            r = Vec(list(a0.labels), fresh=True)
            r.exact = True
            return r
        ix = kw.get("index")
        if name == "pd.Series" and isinstance(ix, Vec) and isinstance(a0, Vec) and len(ix.v) == len(a0.v) and ix.v and all(isinstance(x, str) for x in ix.v) \
                and len(set(ix.v)) == len(ix.v) and not ix.aligned:
            return LabelSeries(dict(zip(ix.v, a0.v)))           # a lookup table keyed by distinct literal labels
        if name == "pd.Series" and isinstance(ix, IndexVals) and isinstance(a0, (list, tuple)):
            a0 = Vec(list(a0))
            a0.exact = True
        if name == "pd.Series" and isinstance(ix, IndexVals) and ix.labels is not None and isinstance(a0, Vec) and len(a0.v) == len(ix.labels):
            kind = getattr(ix, "kind", "range")
            r = Vec(a0.v, aligned=(kind if kind != "range" else True))
            r.labels, r.exact = list(ix.labels), True
            return r
        if name == "pd.Series" and isinstance(ix, IndexVals) and isinstance(a0, Vec):
            if ix.labels is None and ix.n != len(a0.v):
                raise Raised("ValueError", f"Length of values ({len(a0.v)}) does not match length of index ({ix.n})")
            kind = getattr(ix, "kind", "range")
            r = Vec(a0.v, aligned=(kind if kind != "range" else True))       # a Series on that table's own index
            r.exact = a0.exact
            return r
        if isinstance(a0, Vec):
            r = Vec(a0.v, fresh=fresh and not a0.aligned, aligned=a0.aligned and name == "pd.Series")
            r.exact = a0.exact
            if r.fresh and r.exact:
                r.labels = list(range(len(r.v)))             # pd.Series(<array>): labels 0..n-1
            elif r.aligned and a0.labels is not None:
                r.labels = a0.labels
            return r
        if isinstance(a0, (list, tuple)):
            return Vec(list(a0), fresh=fresh)
        if isinstance(a0, Opaque):
            return a0
        return Opaque(name)
    if name == "np.hstack" and len(args) == 1 and not kw:
        parts_h = list(it.iterate(args[0]))
        if parts_h and all(isinstance(p_, Vec) and not getattr(p_, "ncols", None) for p_ in parts_h):
            return ext_call(it, "np.concatenate", [parts_h], {})           # 1-D arrays side by side: their concatenation
    if name == "np.concatenate":
        out = []
        all_exact = True
        parts_ = list(it.iterate(args[0]))
        if not parts_:
            raise Raised("ValueError", "need at least one array to concatenate")
        for part in parts_:
            if isinstance(part, (list, tuple)) and all(not isinstance(x, (list, tuple, Vec)) for x in part):
                out.extend(part)                         # a literal list among the arrays ([False] + mask)
                continue
            if not isinstance(part, Vec):
                return Opaque(name)
            all_exact = all_exact and part.exact
            out.extend(part.v)
        r = Vec(out)
        r.exact = bool(all_exact)
        return r
    if name == "np.allclose" and len(args) >= 2 and isinstance(args[0], Vec) and isinstance(args[1], Vec):
        a, b = _lits(args[0].v), _lits(args[1].v)
        if a is None or b is None:
            raise Undecided("np.allclose on abstract values")
        if len(a) != len(b):
            raise Raised("ValueError", "operands could not be broadcast together")
        rtol = kw.get("rtol", args[2] if len(args) > 2 else 1e-5)
        atol = kw.get("atol", args[3] if len(args) > 3 else 1e-8)
        return all(abs(x - y) <= atol + rtol * abs(y) for x, y in zip(a, b))
    if name in ("np.array_equal",):
        a, b = args
        if isinstance(a, Matrix) or isinstance(b, Matrix):
            return isinstance(a, Matrix) and a.equal(b)
        if isinstance(a, Vec) and isinstance(b, Vec):
            return len(a.v) == len(b.v) and all(same(x, y) for x, y in zip(a.v, b.v))
        return Opaque(name)
    if name == "np.logical_and":
        return lift2(lambda a, b: a and b, args[0], args[1])
    if name == "np.logical_or":
        return lift2(lambda a, b: a or b, args[0], args[1])
    if name == "np.logical_not":
        return lift1(lambda a: not a, args[0])
    if name == "np.sign":
        def sg(v):
            t = T(v)
            if t.lo > 0:
                return 1
            if t.hi < 0:
                return -1
            if t.is_const():
                return 0
            return fatom("sign", [t], -1, 1, True)
        return _np_elem(sg)(it, args[0])
    if name == "math.log":
        if len(args) == 2 and same(args[1], 2):
            return f_log2(args[0])
        if len(args) == 1:
            return fatom("ln", [T(args[0])])
        return fatom("log_b", [T(args[0]), T(args[1])])
    if name == "math.log2":
        return f_log2(args[0])
    if name == "math.ceil":
        return f_ceil(args[0])
    if name == "math.floor":
        return f_floor(args[0])
    if name == "math.sqrt":
        return f_sqrt(args[0])
    if name == "math.fabs":
        return f_abs(args[0])
    if name in ("math.exp",):
        return fatom("exp", [T(args[0])], 0.0, INF)
    if name == "pd.DataFrame":
        a0 = args[0] if args else kw.get("data")
        if isinstance(a0, dict) and any(isinstance(v, (list, tuple)) for v in a0.values()):
            # plain lists among the columns: literal arrays of that length
            def as_vec(v):
                if isinstance(v, (list, tuple)):
                    r = Vec(list(v))
                    r.exact = True
                    return r
                return v
            a0 = {k: as_vec(v) for k, v in a0.items()}
        if isinstance(a0, dict) and all(isinstance(v, Vec) for v in a0.values()):
            n = len(next(iter(a0.values())).v) if a0 else 0
            out = DF(a0, n)
            out.exact = bool(a0) and all(getattr(v, "exact", False) and len(v.v) == n for v in a0.values())
            return out
        if isinstance(a0, DF):
            return a0
        if isinstance(a0, dict) and a0 and any(isinstance(v, Vec) for v in a0.values()) and \
                all(isinstance(v, (Vec, str, int, float, Fr)) and not isinstance(v, bool) for v in a0.values()):
            # scalars are broadcast over the rows of the column-valued entries
            vecs = [v for v in a0.values() if isinstance(v, Vec)]
            n = len(vecs[0].v)
            if any(len(v.v) != n for v in vecs):
                raise Raised("ValueError", "All arrays must be of the same length")
            out = DF({k: (v if isinstance(v, Vec) else Vec([v] * n, aligned=True)) for k, v in a0.items()}, n)
            out.exact = all(v.exact for v in vecs)
            return out
        return Opaque(name)
    if name == "pd.DataFrame.from_dict" and args and isinstance(args[0], dict) and len(args) == 1 and not kw:
        return ext_call(it, "pd.DataFrame", [dict(args[0])], {})
    if name in ("pd.DataFrame.from_records", "pd.DataFrame.from_dict"):
        return frame_from_records(it, args, kw)
    if name == "pd.concat":
        parts = list(it.iterate(args[0]))
        if not parts and isinstance(args[0], (list, tuple)):
            raise Raised("ValueError", "No objects to concatenate")
        if parts and all(isinstance(x, DF) for x in parts) and kw.get("axis", 0) == 0:
            cols = []
            for x in parts:
                cols += [c for c in x.cols if c not in cols]
            if kw.get("join", "outer") == "inner":
                cols = [c for c in cols if all(c in x.cols for x in parts)]
            elif kw.get("join", "outer") != "outer":
                raise Undecided(f"pd.concat(join={kw.get('join')!r})")
            n = sum(x.n for x in parts)
            out = DF({c: Vec([v for x in parts for v in (x.cols[c].v if c in x.cols else [None] * x.n)], aligned=True) for c in cols}, n)
            # without ignore_index the parts' labels repeat: label-aligned stores into the result are hazards
            out.index = "range" if (kw.get("ignore_index") is True or len(parts) == 1) else "any"
            out.exact = all(getattr(x, "exact", False) for x in parts)
            return out
        if parts and all(isinstance(x, DF) for x in parts) and kw.get("axis") == 1 and len({x.n for x in parts}) == 1 and set(kw) <= {"axis"}:
            cols = {}
            for x in parts:
                for c, v in x.cols.items():
                    if c in cols:
                        raise Undecided("pd.concat(axis=1) with a repeated column name")
                    cols[c] = v
            out = DF(cols, parts[0].n, parts[0].index)
            out.exact = all(getattr(x, "exact", False) for x in parts)
            return out
        if parts and all(isinstance(x, Vec) for x in parts) and kw.get("axis", 0) == 0:
            r = Vec([v for x in parts for v in x.v], aligned=("any" if any(x.aligned or x.fresh for x in parts) else False))
            r.exact = all(x.exact for x in parts)
            if all(x.labels is not None for x in parts) and kw.get("ignore_index") is not True:
                r.labels = [l for x in parts for l in x.labels]          # the parts' labels, concatenated (may repeat)
            return r
        return Opaque("mixed:concat")
    if name in ("collections.OrderedDict", "OrderedDict", "collections.OrderedDict.fromkeys"):
        return dict(*[(x if isinstance(x, dict) else list(it.iterate(x))) for x in args], **kw)
    if name in ("collections.defaultdict",):
        import collections
        f = args[0] if args else None
        if isinstance(f, _TypeProxy):
            return collections.defaultdict(f.pytype)
        if f is None:
            return collections.defaultdict(None)
        return collections.defaultdict(lambda: it.call(f, [], {}))
    if name == "collections.namedtuple":
        tname, fields = args[0], args[1]
        fields = fields.replace(",", " ").split() if isinstance(fields, str) else list(fields)
        return NamedTupleType(tname, fields)
    if name == "itertools.count" and len(args) <= 2 and not kw and all(isinstance(a, int) and not isinstance(a, bool) for a in args):
        import itertools
        return itertools.count(*args)                     # consumed lazily by the interpreter's loops (bounded by MAX_LOOP)
    if name == "functools.reduce" and len(args) in (2, 3) and not kw:
        items = it.iterate(args[1])
        items = iter(items)
        if len(args) == 3:
            acc = args[2]
        else:
            try:
                acc = next(items)
            except StopIteration:
                raise Raised("TypeError", "reduce() of empty iterable with no initial value")
        for x in items:
            acc = it.call(args[0], [acc, x], {})
        return acc
    if name.startswith("operator.") and name[9:] in _OPERATOR_FUNCS and not kw:
        kind, node = _OPERATOR_FUNCS[name[9:]]
        if kind == "bin" and len(args) == 2:
            return ai.binop(node, args[0], args[1])
        if kind == "cmp" and len(args) == 2:
            return ai.compare(node, args[0], args[1])
        if kind == "cmp_rev_in" and len(args) == 2:
            return ai.compare(ast.In(), args[1], args[0])
        if kind == "not" and len(args) == 1:
            return not ai.truth(args[0])
        if kind == "neg" and len(args) == 1:
            return ai.binop(ast.Sub(), 0, args[0])
        if kind == "getitem" and len(args) == 2:
            return load_subscript(it, args[0], args[1])
        if kind == "itemgetter" and len(args) >= 1:
            keys = list(args)
            return (lambda x: load_subscript(it, x, keys[0])) if len(keys) == 1 else (lambda x: tuple(load_subscript(it, x, k_) for k_ in keys))
        if kind == "attrgetter" and len(args) >= 1 and all(isinstance(a_, str) and "." not in a_ for a_ in args):
            names = list(args)
            return (lambda x: it.attribute(x, names[0])) if len(names) == 1 else (lambda x: tuple(it.attribute(x, n_) for n_ in names))
    if name == "itertools.starmap" and len(args) == 2 and not kw:
        return [it.call(args[0], list(it.iterate(tup)), {}) for tup in it.iterate(args[1])]          # f(*t) for every tuple, in order
    if name == "itertools.compress" and len(args) == 2 and not kw:
        data, sel = it.iterate(args[0]), it.iterate(args[1])
        return _ai().GenList(d for d, s_ in zip(data, sel) if ai.truth(s_))
    if name == "itertools.chain.from_iterable" and len(args) == 1 and not kw:
        return (x for part in it.iterate(args[0]) for x in it.iterate(part))         # lazy, like the original
    if name == "itertools.repeat" and len(args) in (1, 2) and not kw:
        import itertools
        return itertools.repeat(*args) if len(args) == 1 or isinstance(args[1], int) else (_ for _ in ()).throw(Undecided("itertools.repeat count"))
    if name == "itertools.tee" and len(args) in (1, 2) and not kw:
        vals = list(it.iterate(args[0]))
        return tuple(_ai().GenList(vals) for _ in range(args[1] if len(args) == 2 else 2))
    if name in ("itertools.chain",):
        out = []
        for a in args:
            out.extend(it.iterate(a))
        return out
    if name == "np.searchsorted" and len(args) >= 2 and isinstance(args[0], (list, tuple)) and not isinstance(args[1], (Vec, list, tuple)) and set(kw) <= {"side"}:
        side = args[2] if len(args) > 2 else kw.get("side", "left")
        return ext_call(it, "bisect.bisect_left" if side == "left" else "bisect.bisect_right", [args[0], args[1]], {})
    if name in ("bisect.bisect", "bisect.bisect_right", "bisect.bisect_left") and len(args) == 2 and not kw:
        # position in a sorted list, by the interpreter's own comparisons (so order values and symbols decide through their atoms)
        seq = list(it.iterate(args[0]))
        x = args[1]
        op = ast.Lt() if name != "bisect.bisect_left" else ast.LtE()
        for i, e in enumerate(seq):
            if ai.truth(ai.compare(op, x, e)):
                return i
        return len(seq)
    if name == "functools.partial" and args:
        fn, pargs, pkw = args[0], list(args[1:]), dict(kw)
        return lambda *a, **k: it.call(fn, pargs + list(a), dict(pkw, **k))
    if name in ("itertools.groupby",):
        # runs of consecutive items with an equal (concrete) key
        keyf = args[1] if len(args) > 1 else kw.get("key")
        out = []
        for x in it.iterate(args[0]):
            k = it.call(keyf, [x], {}) if keyf is not None else x
            if not isinstance(k, (str, int, bool, tuple, type(None))) or isinstance(k, tuple) and not all(isinstance(y, (str, int, bool, type(None))) for y in k):
                raise Undecided(f"itertools.groupby key {k!r}")
            if out and out[-1][0] == k:
                out[-1][1].append(x)
            else:
                out.append((k, [x]))
        return out
    if name in ("itertools.zip_longest", "zip_longest"):
        import itertools
        return list(itertools.zip_longest(*[list(it.iterate(a)) for a in args], **kw))
    if name in ("itertools.takewhile", "takewhile"):
        out = []
        for x in it.iterate(args[1]):
            if not ai.truth(it.call(args[0], [x], {})):
                break
            out.append(x)
        return out
    if name in ("itertools.islice", "islice"):
        import itertools
        return list(itertools.islice(it.iterate(args[0]), *args[1:]))
    if name in ("itertools.product",):
        import itertools
        return list(itertools.product(*[list(it.iterate(a)) for a in args], **kw))
    if name in ("os.path.basename", "os.path.dirname", "os.path.join", "os.path.splitext", "os.path.normpath", "os.path.abspath"):
        import os
        if all(isinstance(a, str) for a in args):
            return getattr(os.path, name.split(".")[-1])(*args)
        return Opaque(name)
    if name in ("re.compile", "re.match", "re.search", "re.sub", "re.split", "re.findall"):
        import re
        if all(isinstance(a, (str, int)) for a in args):
            return getattr(re, name.split(".")[-1])(*args, **kw)
        return Opaque(name)
    prov = tuple(p for a in list(args) + list(kw.values()) if isinstance(a, Opaque) for p in a.prov)
    return Opaque(name, prov)


def frame_from_records(it, args, kw):
    rows = args[0] if args else kw.get("data")
    cols = kw.get("columns", args[1] if len(args) > 1 else None)
    if isinstance(rows, dict):
        if all(isinstance(v, Vec) for v in rows.values()):
            n = len(next(iter(rows.values())).v) if rows else 0
            return DF(rows, n)
        return Opaque("from_dict")
    rows = list(it.iterate(rows))
    if cols is None:
        if rows and isinstance(rows[0], Row):
            cols = rows[0]._fields
        else:
            return Opaque("from_records")
    cols = list(it.iterate(cols))
    data = {c: [] for c in cols}
    for r in rows:
        vals = list(it.iterate(r)) if not isinstance(r, dict) else [r[c] for c in cols]
        if len(vals) != len(cols):
            raise Raised("ValueError", f"{len(cols)} columns passed, passed data had {len(vals)} columns")
        for c, v in zip(cols, vals):
            data[c].append(v)
    out = DF({c: Vec(v, aligned=True) for c, v in data.items()}, len(rows))
    # records that are, each, one literal row of a literal table: the frame is literally these rows
    out.exact = bool(rows) and all(isinstance(r, Row) and r.__dict__.get("_exact") for r in rows)
    if out.exact:
        for v in out.cols.values():
            v.exact = True
    return out
