"""Shared discipline rules: RNG seeding, ordered fan-out, hidden state, must-pass-through helpers."""
import ast

from .core import (AnalysisError, parents, own_nodes, norm, stmt_of, dominates, names_in, str_consts_in, guard_raises)

GLOBAL_DRAWS = {"permutation", "shuffle", "choice", "rand", "randn", "randint", "random", "random_sample", "normal",
                "uniform", "standard_normal", "binomial", "poisson", "beta", "gamma", "exponential", "sample", "bytes",
                "multivariate_normal", "integers", "ranf", "random_integers", "gauss", "randrange", "choices", "triangular"}
# library callables that draw from the global numpy generator unless given an explicit state
LIB_RNG = {"sample": ("random_state",), "kmeans2": ("seed", "rng"), "kmeans": ("seed", "rng"), "PCA": ("random_state",),
           "KMeans": ("random_state",), "TruncatedSVD": ("random_state",), "train_test_split": ("random_state",),
           "resample": ("random_state",), "default_rng": None, "RandomState": None}


def _is_const_seed(e):
    return isinstance(e, ast.Constant) and isinstance(e.value, int)


def is_global_seed(n):
    return (isinstance(n, ast.Call) and norm(n.func) in ("np.random.seed", "numpy.random.seed", "random.seed")
            and len(n.args) == 1 and _is_const_seed(n.args[0]))


def is_global_draw(n):
    if not (isinstance(n, ast.Call) and isinstance(n.func, ast.Attribute)):
        return False
    base = norm(n.func.value)
    return base in ("np.random", "numpy.random", "random") and n.func.attr in GLOBAL_DRAWS


def lib_rng_call(n):
    """(name, ok) if `n` calls a library routine with an RNG parameter; ok = constant state supplied."""
    if not isinstance(n, ast.Call):
        return None
    name = n.func.attr if isinstance(n.func, ast.Attribute) else n.func.id if isinstance(n.func, ast.Name) else None
    if name not in LIB_RNG:
        return None
    if name == "sample":
        # DataFrame.sample / Series.sample: a method call with n= / frac= or one positional count; not random.sample (handled as global draw)
        if not isinstance(n.func, ast.Attribute) or norm(n.func.value) in ("random", "np.random"):
            return None
    if name in ("kmeans", "kmeans2"):
        if not isinstance(n.func, ast.Attribute) or not norm(n.func.value).endswith("vq"):
            return None
    kws = LIB_RNG[name]
    if kws is None:
        # explicit generator construction: must be seeded with a constant
        ok = bool(n.args) and _is_const_seed(n.args[0]) or any(k.arg == "seed" and _is_const_seed(k.value) for k in n.keywords)
        return name, ok
    ok = any(k.arg in kws and (_is_const_seed(k.value)) for k in n.keywords)
    return name, ok


def seeded_in_function(fi, site, par):
    """Is the statement containing `site` dominated, in its own function, by a constant global seed call?"""
    st = stmt_of(site, par)
    for n in own_nodes(fi.node):
        if is_global_seed(n):
            sst = stmt_of(n, par)
            if sst is not st and dominates(sst, st, par) and isinstance(sst, ast.Expr):
                return True
    return False


def callers_of(prog, eff, target):
    out = []
    for fi in prog.functions.values():
        for n in own_nodes(fi.node):
            if isinstance(n, ast.Call) and target in eff.resolve_call(n, fi):
                out.append((fi, n))
    return out


def seeded(prog, eff, fi, site, depth=0, seen=None):
    """site is seeded if dominated by a seed in fi, or fi is private (not reachable except through its repo
    callers) and every caller's call site is seeded."""
    par = parents(fi.node)
    if seeded_in_function(fi, site, par):
        return True, f"seed dominates in {fi.qn}"
    seen = seen or set()
    if depth >= 3 or fi.qn in seen or not fi.name.startswith("_"):
        return False, f"no constant np.random.seed() dominates the draw in {fi.qn}"
    seen.add(fi.qn)
    callers = callers_of(prog, eff, fi)
    if not callers:
        return False, f"{fi.qn} draws unseeded and has no repo caller that seeds"
    for cfi, cn in callers:
        ok, why = seeded(prog, eff, cfi, cn, depth + 1, seen)
        if not ok:
            return False, f"caller {cfi.qn} does not seed before calling {fi.qn}"
    return True, f"every caller of {fi.qn} seeds first ({', '.join(c.qn for c, _ in callers)})"


def rng_sites(prog):
    """[(FuncInfo, call node, kind, name)] over all functions (module-level __main__ demos are not library code)."""
    out = []
    for fi in prog.functions.values():
        for n in own_nodes(fi.node):
            if is_global_draw(n):
                out.append((fi, n, "global-draw", norm(n.func)))
            else:
                r = lib_rng_call(n)
                if r is not None:
                    out.append((fi, n, "library-rng", r[0]))
    return out


UNORDERED = {"as_completed", "imap_unordered", "wait", "imap_unordered_async"}


def fanout_sites(prog):
    """pool.map / pool.submit call sites and banned unordered consumption idioms."""
    sites, banned = [], []
    for fi in prog.functions.values():
        for n in own_nodes(fi.node):
            if isinstance(n, ast.Call) and isinstance(n.func, ast.Attribute):
                if n.func.attr in ("map", "submit", "imap", "starmap", "apply_async", "map_async") and isinstance(n.func.value, ast.Name) and "pool" in n.func.value.id.lower():
                    sites.append((fi, n))
                if n.func.attr in UNORDERED:
                    r = prog.resolve_attr(fi.mod, n.func.value)
                    ext = r[1] if r and r[0] == "ext" else ""
                    if (norm(n.func.value) in ("futures", "concurrent.futures") or "pool" in norm(n.func.value).lower()
                            or ext.startswith("concurrent") or ext.startswith("multiprocessing")):
                        banned.append((fi, n))
            if isinstance(n, ast.Call) and isinstance(n.func, ast.Name) and n.func.id in UNORDERED:
                r = prog.resolve_name(fi.mod, n.func.id)
                if r and r[0] == "ext" and (r[1].startswith("concurrent") or r[1].startswith("multiprocessing")):
                    banned.append((fi, n))
    return sites, banned


GENERATOR_CTORS = ("np.random.RandomState", "numpy.random.RandomState", "np.random.default_rng", "numpy.random.default_rng", "np.random.Generator", "random.Random")


def shared_generators(prog):
    """Generator objects that outlive a call -- module-level names, class attributes and parameter defaults bound to
    RandomState(...) / default_rng(...) / random.Random(...) -- and every use of them inside a function.  A draw from such an object
    depends on how many draws happened earlier in the process, whatever its seed: the result is no longer a function of the
    arguments.  Returns [(FuncInfo, use node, generator description)]."""
    out = []
    for mname, m in prog.modules.items():
        shared = {}
        for st in m.tree.body:
            if isinstance(st, ast.Assign) and isinstance(st.value, ast.Call) and norm(st.value.func) in GENERATOR_CTORS:
                for t in st.targets:
                    if isinstance(t, ast.Name):
                        shared[t.id] = f"module-level {t.id} = {norm(st.value)[:50]}"
            if isinstance(st, ast.ClassDef):
                for cs in st.body:
                    if isinstance(cs, ast.Assign) and isinstance(cs.value, ast.Call) and norm(cs.value.func) in GENERATOR_CTORS:
                        for t in cs.targets:
                            if isinstance(t, ast.Name):
                                shared[f"{st.name}.{t.id}"] = f"class attribute {st.name}.{t.id} = {norm(cs.value)[:50]}"
        for fi in prog.functions.values():
            if fi.mod != mname:
                continue
            local = dict(shared)
            a = fi.node.args
            pos = a.posonlyargs + a.args
            for arg, d in list(zip(pos[len(pos) - len(a.defaults):], a.defaults)) + [(x, d) for x, d in zip(a.kwonlyargs, a.kw_defaults) if d is not None]:
                if isinstance(d, ast.Call) and norm(d.func) in GENERATOR_CTORS:
                    local[arg.arg] = f"default of parameter {arg.arg} = {norm(d)[:50]} (evaluated once)"
            if not local:
                continue
            rebound = {t.id for n in own_nodes(fi.node) if isinstance(n, ast.Assign) for t in n.targets if isinstance(t, ast.Name)}
            for n in own_nodes(fi.node):
                if isinstance(n, ast.Call) and isinstance(n.func, ast.Attribute):
                    base = norm(n.func.value)
                    key = base if base in local else (base.split(".", 1)[1] if base.startswith(("self.", "cls.")) and base.split(".", 1)[1] in {k.split(".")[-1] for k in local} else None)
                    if base in local and base not in rebound:
                        out.append((fi, n, local[base]))
    return out


MUTATING_METHODS = {"append", "extend", "insert", "pop", "remove", "clear", "update", "setdefault", "popitem", "add", "discard", "sort", "reverse", "difference_update", "intersection_update"}


def _mutable_literal(v):
    if isinstance(v, (ast.Dict, ast.List, ast.Set, ast.DictComp, ast.ListComp, ast.SetComp)):
        return True
    return isinstance(v, ast.Call) and norm(v.func) in ("dict", "list", "set", "collections.defaultdict", "defaultdict", "collections.OrderedDict", "OrderedDict") and not v.args


def complete_memo(fi, cname):
    """Is every write of function `fi` into the container named `cname` (a module-level name or a parameter with a mutable default) a memo store
    `cname[key] = value` / `cname.setdefault(key, value)` whose value depends on no parameter the key does not cover, the container being otherwise
    only read by key (`cname[k]`, `k in cname`, `cname.get(k)`)?  Such a cache cannot change what the function returns: remembering is then
    behaviour-preserving, and a state rule must not report it.  Conservative: anything it does not recognise is `False`."""
    from .core import parents, own_nodes as _own
    from . import flow
    par = parents(fi.node)
    params = set(fi.params) - {cname}
    writes, ok_reads = [], set()
    for n in _own(fi.node):
        if isinstance(n, ast.Assign) and any(isinstance(t, ast.Subscript) and isinstance(t.value, ast.Name) and t.value.id == cname for t in n.targets):
            if len(n.targets) != 1:
                return False
            writes.append((n.targets[0].slice, n.value, n))
            ok_reads.add(id(n.targets[0].value))
        elif isinstance(n, (ast.AugAssign, ast.Delete)):
            for t in ([n.target] if isinstance(n, ast.AugAssign) else n.targets):
                if isinstance(t, ast.Subscript) and isinstance(t.value, ast.Name) and t.value.id == cname:
                    return False
        elif isinstance(n, ast.Call) and isinstance(n.func, ast.Attribute) and isinstance(n.func.value, ast.Name) and n.func.value.id == cname:
            if n.func.attr == "setdefault" and len(n.args) == 2:
                writes.append((n.args[0], n.args[1], n))
                ok_reads.add(id(n.func.value))
            elif n.func.attr == "get" and n.args:
                ok_reads.add(id(n.func.value))
            elif n.func.attr in MUTATING_METHODS:
                return False
            else:
                return False
        elif isinstance(n, ast.Subscript) and isinstance(n.value, ast.Name) and n.value.id == cname and isinstance(n.ctx, ast.Load):
            ok_reads.add(id(n.value))
        elif isinstance(n, ast.Compare) and len(n.ops) == 1 and isinstance(n.ops[0], (ast.In, ast.NotIn)) and isinstance(n.comparators[0], ast.Name) and n.comparators[0].id == cname:
            ok_reads.add(id(n.comparators[0]))
    if not writes:
        return False
    for n in _own(fi.node):
        if isinstance(n, ast.Name) and n.id == cname and id(n) not in ok_reads:
            return False                                  # handed on, iterated, measured ...: not only a keyed cache

    def deps(e, seen, depth=0):
        out = set()
        for x in ast.walk(e):
            if isinstance(x, ast.Name):
                if x.id == cname:
                    out.add("<the cache itself>")
                elif x.id in params:
                    out.add(x.id)
                elif x.id not in seen and depth < 6:
                    seen = seen | {x.id}
                    for st, v in flow.assignments(fi.node, x.id):
                        if v is not None:
                            out |= deps(v, seen, depth + 1)
                        elif isinstance(st, (ast.For, ast.With, ast.AugAssign)) or v is None:
                            out.add("<unknown binding>") if not isinstance(st, ast.Assign) else None
                        # the conditions under which this assignment runs
                        p_ = par.get(st)
                        while p_ is not None and p_ is not fi.node:
                            if isinstance(p_, (ast.If, ast.While)):
                                out |= deps(p_.test, seen, depth + 1)
                            p_ = par.get(p_)
        return out
    for key, val, node in writes:
        dv, dk = deps(val, frozenset()), deps(key, frozenset())
        if "<the cache itself>" in dv or "<unknown binding>" in dv:
            return False
        # the conditions under which the store itself runs may mention the key only
        if not dv <= dk:
            return False
    return True


def shared_mutable_state(prog, modules=None):
    """Containers that outlive a call -- class attributes and module-level names bound to a dict / list / set literal -- and every
    place where a function writes into one of them (subscript store, `del`, augmented store, a mutating method), directly or through
    a local alias (`limits = self._coord_limits; limits["upper"] = ...`).  What such a function returns then depends on the calls made
    before it in the same process.  Returns [(FuncInfo, node, description)]."""
    out = []

    def _bindings(st):
        if isinstance(st, ast.Assign):
            return [(t.id, st.value) for t in st.targets if isinstance(t, ast.Name)]
        if isinstance(st, ast.AnnAssign) and isinstance(st.target, ast.Name) and st.value is not None:
            return [(st.target.id, st.value)]
        return []
    # class-level containers of every class, and whether __init__ gives each instance its own (an unconditional `self.X = ...` at the top level of __init__)
    class_attrs = {}
    for cname, ci in prog.classes.items():
        for cs in ci.node.body:
            for nm, val in _bindings(cs):
                if _mutable_literal(val):
                    init = next((f for f in ci.node.body if isinstance(f, ast.FunctionDef) and f.name == "__init__"), None)
                    own = init is not None and any(isinstance(st, ast.Assign) and any(isinstance(t, ast.Attribute) and t.attr == nm and isinstance(t.value, ast.Name) and t.value.id == "self" for t in st.targets)
                                                   for st in init.body)
                    if not own:
                        class_attrs.setdefault(cname, {})[nm] = f"class attribute {cname}.{nm} = {norm(val)[:40]}"
    for mname, m in prog.modules.items():
        if modules is not None and not mname.startswith(tuple(modules)):
            continue
        glob, attrs = {}, {}
        def bindings(st):
            """(name, value) pairs of a simple or annotated assignment"""
            if isinstance(st, ast.Assign):
                return [(t.id, st.value) for t in st.targets if isinstance(t, ast.Name)]
            if isinstance(st, ast.AnnAssign) and isinstance(st.target, ast.Name) and st.value is not None:
                return [(st.target.id, st.value)]
            return []
        for st in m.tree.body:
            for nm, val in bindings(st):
                if _mutable_literal(val):
                    glob[nm] = f"module-level {nm} = {norm(val)[:40]}"
        for fi in prog.functions.values():
            if fi.mod != mname:
                continue
            # the class-level containers visible through `self` / `cls` in this method: those of its class and of its base classes (in any module)
            attrs = {}
            if fi.cls:
                for c in prog.mro(fi.cls):
                    for nm, d in class_attrs.get(c, {}).items():
                        attrs.setdefault(nm, d)
            if not glob and not attrs:
                continue
            assigned = {}
            for n in own_nodes(fi.node):
                if isinstance(n, ast.Assign) and len(n.targets) == 1 and isinstance(n.targets[0], ast.Name):
                    assigned.setdefault(n.targets[0].id, []).append(n.value)
            params = {a.arg for a in fi.node.args.posonlyargs + fi.node.args.args + fi.node.args.kwonlyargs}
            declared_global = {x for n in own_nodes(fi.node) if isinstance(n, ast.Global) for x in n.names}

            par = None

            def shared_of(e, depth=0):
                """description of the shared container an expression may denote at this point, or None"""
                nonlocal par
                if isinstance(e, ast.Name):
                    if e.id in glob and e.id not in params and (e.id not in assigned or e.id in declared_global):
                        return glob[e.id]
                    if e.id in assigned and depth < 3:
                        # the definitions that can reach this use: one of them being the shared object is enough (on that path it is written)
                        from . import flow
                        from .core import parents
                        par = par or parents(fi.node)
                        reach = [v for v in flow.reaching_values(fi, e.id, e, par) if not isinstance(v, str)]
                        for v in reach:
                            d = shared_of(v, depth + 1)
                            if d:
                                return d + f" (through the local name {e.id})"
                    return None
                if isinstance(e, ast.Attribute) and isinstance(e.value, ast.Name):
                    # self.X / cls.X: the class-level object (classes whose __init__ always gives the instance its own X are not listed);  ClassName.X likewise
                    if e.value.id in ("self", "cls") and e.attr in attrs:
                        return attrs[e.attr]
                    if e.value.id in class_attrs and e.attr in class_attrs[e.value.id]:
                        return class_attrs[e.value.id][e.attr]
                return None
            for n in own_nodes(fi.node):
                tgt = None
                if isinstance(n, (ast.Assign, ast.AugAssign, ast.Delete)):
                    for t in (n.targets if isinstance(n, (ast.Assign, ast.Delete)) else [n.target]):
                        if isinstance(t, ast.Subscript):
                            d = shared_of(t.value)
                            if d and isinstance(t.value, ast.Name) and t.value.id in glob and complete_memo(fi, t.value.id):
                                continue                  # a cache keyed by everything its values depend on
                            if d:
                                out.append((fi, n, f"{d}: `{norm(t)[:50]}` is written inside {fi.qn}"))
                elif isinstance(n, ast.Call) and isinstance(n.func, ast.Attribute) and n.func.attr in MUTATING_METHODS:
                    d = shared_of(n.func.value)
                    if d and isinstance(n.func.value, ast.Name) and n.func.value.id in glob and complete_memo(fi, n.func.value.id):
                        continue
                    if d:
                        out.append((fi, n, f"{d}: `{norm(n)[:50]}` mutates it inside {fi.qn}"))
    return out


def cached_result_mutations(prog, eff=None):
    """A function memoised by functools.lru_cache / functools.cache hands every caller the *same* object.  A caller that changes that object in place -- an augmented
    assignment on the name it bound the result to, a subscript store, a mutating method, or passing it to a function whose effect summary mutates that parameter --
    changes what every later call returns: hidden state between calls.  Returns [(caller FuncInfo, node, description)]."""
    from .effects import Effects, Resolver
    eff = eff or Effects(prog)
    res = Resolver(prog)
    cached = {}
    for qn, fi in prog.functions.items():
        for d in getattr(fi.node, "decorator_list", []):
            nm = norm(d.func) if isinstance(d, ast.Call) else norm(d)
            if nm in ("functools.lru_cache", "lru_cache", "functools.cache", "cache"):
                cached[qn] = fi
    out = []
    if not cached:
        return out
    MUTATORS = {"sort", "append", "extend", "insert", "pop", "remove", "clear", "update", "setdefault", "fill", "resize", "itemset", "put", "partition", "reverse"}
    for g in prog.functions.values():
        names = {}
        for n in own_nodes(g.node):
            if isinstance(n, ast.Assign) and len(n.targets) == 1 and isinstance(n.targets[0], ast.Name) and isinstance(n.value, ast.Call):
                for c in res.resolve_call(n.value, g):
                    if c.qn in cached:
                        names[n.targets[0].id] = c
        if not names:
            continue
        for n in own_nodes(g.node):
            hit = None
            if isinstance(n, ast.AugAssign) and isinstance(n.target, ast.Name) and n.target.id in names:
                hit = (n.target.id, f"`{norm(n)[:50]}` works in place on arrays")
            elif isinstance(n, (ast.Assign, ast.AugAssign)) and any(isinstance(t, ast.Subscript) and isinstance(t.value, ast.Name) and t.value.id in names for t in (n.targets if isinstance(n, ast.Assign) else [n.target])):
                t = next(t for t in (n.targets if isinstance(n, ast.Assign) else [n.target]) if isinstance(t, ast.Subscript) and isinstance(t.value, ast.Name) and t.value.id in names)
                hit = (t.value.id, f"`{norm(n)[:50]}` stores into it")
            elif isinstance(n, ast.Call) and isinstance(n.func, ast.Attribute) and isinstance(n.func.value, ast.Name) and n.func.value.id in names and n.func.attr in MUTATORS:
                hit = (n.func.value.id, f"`{norm(n)[:50]}` changes it in place")
            elif isinstance(n, ast.Call):
                for c in res.resolve_call(n, g):
                    params = c.params[1:] if (c.is_method if isinstance(c.is_method, bool) else c.is_method()) and isinstance(n.func, ast.Attribute) else c.params
                    for i, a in enumerate(n.args):
                        if isinstance(a, ast.Name) and a.id in names and i < len(params) and params[i] in eff.sum[c.qn].mut:
                            hit = (a.id, f"`{norm(n)[:50]}` hands it to {c.name}, which changes its parameter `{params[i]}` in place")
                    for k in n.keywords:
                        if k.arg and isinstance(k.value, ast.Name) and k.value.id in names and k.arg in eff.sum[c.qn].mut:
                            hit = (k.value.id, f"`{norm(n)[:50]}` hands it to {c.name}, which changes its parameter `{k.arg}` in place")
            if hit:
                f0 = names[hit[0]]
                out.append((g, n, f"the object returned by the memoised {f0.qn} (functools cache: one object for every call with the same arguments) is changed in place: {hit[1]}"))
    return out
