"""The command-line declarations of cnvlib/commands.py read from the syntax tree, and a small model of what argparse does with them.

`parsers(prog)` collects, per sub-command parser variable, its add_argument declarations (flags, dest, action, nargs, default, choices,
type, const), its argument groups and set_defaults.  `parse(parser, argv)` is a (trusted, stated) model of argparse's namespace
construction for the constructs the repository uses: store (last occurrence wins), append (accumulates), store_true / store_false /
store_const, nargs None / ? / * / + / int, `--opt=value`, choices, int / float conversion, positionals.  The result is an `ArgNS`
that the abstract interpreter reads through `ns_hook` -- so a `_cmd_*` function can be interpreted on the namespace a given command
line produces, with the library function it drives stubbed."""
import ast

from .absval import Raised, Undecided
from .core import AnalysisError, norm


class Opt:
    def __init__(self, flags, kw, where):
        self.flags, self.kw, self.where = flags, kw, where
        self.positional = not flags[0].startswith("-")
        self.action = kw.get("action", "store")
        self.nargs = kw.get("nargs")
        self.choices = kw.get("choices")
        self.type = kw.get("type")
        self.const = kw.get("const")
        if "dest" in kw:
            self.dest = kw["dest"]
        elif self.positional:
            self.dest = flags[0]
        else:
            longs = [f for f in flags if f.startswith("--")]
            self.dest = (longs[0] if longs else flags[0]).lstrip("-").replace("-", "_")
        if "default" in kw:
            self.default = kw["default"]
        elif self.action == "store_true":
            self.default = False
        elif self.action == "store_false":
            self.default = True
        elif self.positional and self.nargs in ("*",):
            self.default = []
        else:
            self.default = None

    def __repr__(self):
        return f"<option {'/'.join(self.flags)} -> {self.dest}>"


class Parser:
    def __init__(self, var, name, where):
        self.var, self.name, self.where = var, name, where
        self.opts = []
        self.defaults = {}

    def opt(self, flag_or_dest):
        for o in self.opts:
            if flag_or_dest in o.flags or o.dest == flag_or_dest:
                return o
        raise AnalysisError(f"parser {self.name!r} declares no option {flag_or_dest!r}")


class Expr:
    """a declaration value that is not a literal (type=some_function, default=params.X): kept as source text"""

    def __init__(self, node):
        self.src = norm(node)

    def __repr__(self):
        return f"<expr {self.src}>"

    def __eq__(self, other):
        return isinstance(other, Expr) and other.src == self.src

    def __hash__(self):
        return hash(self.src)


def _lit(node):
    try:
        return ast.literal_eval(node)
    except (ValueError, SyntaxError):
        return Expr(node)


def parsers(prog, modname="cnvlib.commands"):
    mod = prog.module(modname)
    out, alias = {}, {}
    helpers = {f.name: f for f in mod.tree.body if isinstance(f, ast.FunctionDef)}
    body = []
    for st in mod.tree.body:
        # a shared-option helper applied to a parser (`add_diploid_parx_genome(P_call)`): its add_argument statements, on that parser
        if isinstance(st, ast.Expr) and isinstance(st.value, ast.Call) and isinstance(st.value.func, ast.Name) and st.value.func.id in helpers \
                and len(st.value.args) == 1 and isinstance(st.value.args[0], ast.Name) and not st.value.keywords:
            h = helpers[st.value.func.id]
            if len(h.args.args) == 1 and all(isinstance(x, ast.Expr) for x in h.body):
                body.append(("bind", h.args.args[0].arg, st.value.args[0].id))
                body.extend(h.body)
                body.append(("unbind", h.args.args[0].arg, None))
                continue
        body.append(st)
    for st in body:
        if isinstance(st, tuple):
            if st[0] == "bind" and st[2] in alias:
                alias[st[1]] = alias[st[2]]
            elif st[0] == "unbind":
                alias.pop(st[1], None)
            continue
        call = None
        target = None
        if isinstance(st, ast.Assign) and len(st.targets) == 1 and isinstance(st.targets[0], ast.Name) and isinstance(st.value, ast.Call):
            call, target = st.value, st.targets[0].id
        elif isinstance(st, ast.Expr) and isinstance(st.value, ast.Call):
            call = st.value
        if call is None or not isinstance(call.func, ast.Attribute) or not isinstance(call.func.value, ast.Name):
            continue
        recv, meth = call.func.value.id, call.func.attr
        if meth == "add_parser" and target and call.args and isinstance(call.args[0], ast.Constant):
            out[target] = Parser(target, call.args[0].value, (mod.path, st.lineno))
            alias[target] = target
        elif meth in ("add_argument_group", "add_mutually_exclusive_group") and target and recv in alias:
            alias[target] = alias[recv]
        elif meth == "add_argument" and recv in alias:
            flags = [a.value for a in call.args if isinstance(a, ast.Constant) and isinstance(a.value, str)]
            if len(flags) != len(call.args) or not flags:
                raise AnalysisError(f"{mod.path}:{st.lineno}: add_argument with non-literal flags")
            kw = {k.arg: _lit(k.value) for k in call.keywords if k.arg}
            out[alias[recv]].opts.append(Opt(flags, kw, (mod.path, st.lineno)))
        elif meth == "set_defaults" and recv in alias:
            for k in call.keywords:
                out[alias[recv]].defaults[k.arg] = _lit(k.value)
    return out


def parser_of(prog, func_name, modname="cnvlib.commands"):
    """the parser whose set_defaults(func=...) names the given command function"""
    hits = [p for p in parsers(prog, modname).values() if p.defaults.get("func") == Expr(ast.parse(func_name, mode="eval").body)]
    if len(hits) != 1:
        raise AnalysisError(f"{len(hits)} parsers dispatch to {func_name}")
    return hits[0]


class ArgNS:
    """the namespace argparse hands to the command function"""

    def __init__(self, d):
        self.d = dict(d)

    def abs_setattr(self, name, value):
        self.d[name] = value

    def __repr__(self):
        return f"<args {self.d}>"


def ns_hook(it, obj, attr):
    if isinstance(obj, ArgNS):
        if attr not in obj.d:
            raise Raised("AttributeError", f"'Namespace' object has no attribute {attr!r}")
        return obj.d[attr]
    return NotImplemented


def _convert(o, tok, convert=None):
    if isinstance(o.type, Expr) and o.type.src not in ("int", "float", "str") and convert is not None:
        v = convert(o.type.src, tok)              # a conversion function of the repository (interpreted by the caller)
        if o.choices is not None and not isinstance(o.choices, Expr) and v not in o.choices:
            raise Raised("SystemExit", f"argument {'/'.join(o.flags)}: invalid choice: {tok!r}")
        return v
    if o.type == Expr(ast.parse("int", mode="eval").body):
        try:
            v = int(tok)
        except ValueError:
            raise Raised("SystemExit", f"argument {'/'.join(o.flags)}: invalid int value: {tok!r}")
    elif o.type == Expr(ast.parse("float", mode="eval").body):
        from fractions import Fraction
        try:
            v = Fraction(tok)
        except ValueError:
            raise Raised("SystemExit", f"argument {'/'.join(o.flags)}: invalid float value: {tok!r}")
    else:
        v = tok                 # str, or a repo conversion function (left to the caller to apply)
    if o.choices is not None and not isinstance(o.choices, Expr) and v not in o.choices:
        raise Raised("SystemExit", f"argument {'/'.join(o.flags)}: invalid choice: {tok!r}")
    return v


def parse(parser, argv, convert=None):
    ns = {}
    for o in parser.opts:
        d = o.default
        if isinstance(d, str) and o.type is not None and o.action in ("store", "append", "extend"):
            d = _convert(Opt(o.flags, dict(o.kw, choices=None), o.where), d, convert)          # argparse runs `type` over a string default
        if isinstance(d, list):
            d = list(d)
        ns.setdefault(o.dest, d)
    for k, v in parser.defaults.items():
        ns[k] = v
    flag_of = {f: o for o in parser.opts if not o.positional for f in o.flags}
    free = []
    i = 0
    argv = list(argv)

    def is_opt(t):
        return t.startswith("-") and len(t) > 1 and (t in flag_of or t.split("=", 1)[0] in flag_of or not _numeric(t))

    while i < len(argv):
        tok = argv[i]
        i += 1
        if tok == "--":
            free += argv[i:]
            break
        inline = None
        if tok.startswith("--") and "=" in tok:
            tok, inline = tok.split("=", 1)
        elif tok.startswith("-") and not tok.startswith("--") and "=" in tok and tok.split("=", 1)[0] in flag_of:
            tok, inline = tok.split("=", 1)
        if tok.startswith("-") and len(tok) > 1 and tok in flag_of:
            o = flag_of[tok]
            act = o.action
            if act in ("store_true", "store_false"):
                ns[o.dest] = act == "store_true"
                continue
            if act == "store_const":
                ns[o.dest] = o.const
                continue
            if act == "append_const":
                ns[o.dest] = list(ns[o.dest] or []) + [o.const]
                continue
            if act == "count":
                ns[o.dest] = (ns[o.dest] or 0) + 1
                continue
            if act not in ("store", "append", "extend"):
                raise Undecided(f"argparse action {act!r} of {o}")
            # the values this occurrence consumes
            vals = []
            if inline is not None:
                vals = [inline]
            else:
                want = o.nargs
                if want is None:
                    if i >= len(argv):
                        raise Raised("SystemExit", f"argument {tok}: expected one argument")
                    vals = [argv[i]]
                    i += 1
                elif want == "?":
                    if i < len(argv) and not is_opt(argv[i]):
                        vals = [argv[i]]
                        i += 1
                elif want in ("*", "+") or isinstance(want, int):
                    while i < len(argv) and not is_opt(argv[i]) and (not isinstance(want, int) or len(vals) < want):
                        vals.append(argv[i])
                        i += 1
                    if (want == "+" and not vals) or (isinstance(want, int) and len(vals) != want):
                        raise Raised("SystemExit", f"argument {tok}: expected {'at least one' if want == '+' else want} argument(s)")
                else:
                    raise Undecided(f"nargs {want!r} of {o}")
            conv = [_convert(o, v, convert) for v in vals]
            if o.nargs is None:
                value = conv[0]
            elif o.nargs == "?":
                value = conv[0] if conv else o.const
            else:
                value = conv
            if act == "store":
                ns[o.dest] = value                            # a later occurrence replaces an earlier one
            elif act == "append":
                ns[o.dest] = list(ns[o.dest] or []) + [value]
            else:
                ns[o.dest] = list(ns[o.dest] or []) + (list(value) if isinstance(value, list) else [value])
            continue
        if tok.startswith("-") and len(tok) > 1 and not _numeric(tok):
            raise Raised("SystemExit", f"unrecognized arguments: {tok}")
        free.append(tok if inline is None else tok + "=" + inline)
    # positionals, in declaration order (one greedy * / + positional at most is handled)
    pos = [o for o in parser.opts if o.positional]
    fixed_after = 0
    for j, o in enumerate(pos):
        if o.nargs in ("*", "+"):
            fixed_after = sum(1 for p in pos[j + 1:] if p.nargs is None)
    k = 0
    for j, o in enumerate(pos):
        if o.nargs is None:
            if k >= len(free):
                raise Raised("SystemExit", f"the following arguments are required: {o.dest}")
            ns[o.dest] = _convert(o, free[k], convert)
            k += 1
        elif o.nargs == "?":
            if k < len(free):
                ns[o.dest] = _convert(o, free[k], convert)
                k += 1
        elif o.nargs in ("*", "+"):
            take = free[k:len(free) - fixed_after]
            if o.nargs == "+" and not take:
                raise Raised("SystemExit", f"the following arguments are required: {o.dest}")
            ns[o.dest] = [_convert(o, t, convert) for t in take]
            k += len(take)
        else:
            raise Undecided(f"positional nargs {o.nargs!r}")
    if k < len(free):
        raise Raised("SystemExit", f"unrecognized arguments: {' '.join(free[k:])}")
    return ArgNS(ns)


def _numeric(t):
    try:
        float(t)
        return True
    except ValueError:
        return False
