"""C08: chr:start-end text is written with start shifted twice."""
import sys, io
sys.path.insert(0, sys.argv[sys.argv.index("--repo") + 1] if "--repo" in sys.argv else "/repo")
import pandas as pd
from skgenome import tabio, GenomicArray as GA
g = GA(pd.DataFrame(dict(chromosome=["chr1"], start=[10], end=[20], gene=["-"])))
buf = io.StringIO(); tabio.write(g, buf, "text"); txt = buf.getvalue().strip()
back = tabio.read(io.StringIO(txt + "\n"), "text")
print(txt, "->", back.start.iat[0], back.end.iat[0])
print("DEFECT text round trip shifts start" if back.start.iat[0] != 10 else "OK text round trip")
