"""Segment filters on a table whose index is not 0..n-1 (C14)."""
import pandas as pd
from cnvlib.cnary import CopyNumArray as CNA
from cnvlib import segfilters, call
d = pd.DataFrame({"chromosome": ["chr1"] * 6, "start": [0, 10, 20, 30, 40, 50], "end": [10, 20, 30, 40, 50, 60], "gene": list("abcdef"),
                  "log2": [0.0, 0.5, 0.6, 0.0, -0.5, -0.6], "probes": [1] * 6, "weight": [1.0] * 6,
                  "ci_lo": [-.1, .4, .5, -.1, -.6, -.7], "ci_hi": [.1, .6, .7, .1, -.4, -.5], "sem": [.01] * 6, "cn": [2, 5, 6, 2, 0, 0]})
seg = CNA(d)
sub = seg[seg.start >= 10]            # rows 1..5 keep their labels
want = [(10, 30), (30, 40), (40, 60)]
for name in ("ci", "sem"):
    out = getattr(segfilters, name)(sub)
    got = list(zip(out.start, out.end))
    print(name, got)
    assert got == want, (name, got)
out = segfilters.ampdel(sub)
got = list(zip(out.start, out.end))
print("ampdel", got)
assert got == [(10, 30), (40, 60)], got
out = call.do_call(sub, method="none", filters=["ci"])
assert list(zip(out.start, out.end)) == want
print("OK")
