import os, sys; sys.path.insert(0, os.getcwd())
import pandas as pd, tempfile
from skgenome import GenomicArray as GA
from cnvlib import target
baits = GA(pd.DataFrame({"chromosome": ["chr1"]*4, "start": [0, 100, 200, 300], "end": [50, 100, 250, 350], "gene": ["b0", "b1", "b2", "b3"]}))
annot = GA(pd.DataFrame({"chromosome": ["chr1"]*3, "start": [0, 200, 300], "end": [60, 260, 360], "gene": ["G0", "G2", "G3"]}))
import skgenome.tabio as tabio
orig = tabio.read
with tempfile.NamedTemporaryFile("w", suffix=".bed", delete=False) as f:
    for r in annot.data.itertuples(index=False):
        f.write(f"{r.chromosome}\t{r.start}\t{r.end}\t{r.gene}\n")
out = target.do_target(baits, f.name, do_short_names=False, do_split=False)
print(out.data)
assert list(out["gene"]) == ["G0", "G2", "G3"], list(out["gene"])
print("OK")
