"""C03 / flasso: `segarr["weight"] = filtered_cn["weight"]` aligns by index label.  As soon as one bin is filtered out (zero weight, outlier, low coverage) the
surviving bins' labels are no longer 0..n-1, the fresh segment table read back from R is, so the weights land on the wrong rows and one becomes NaN; squash_by_groups
then averages log2 with a NaN weight and the merged segment's log2 is NaN.  Rscript is not installed here: a stand-in executable plays cghFLasso (fitted value = the
bin's own log2, which is what the lasso returns for a flat profile).  Exit 0 = defect absent."""
import os, sys, stat, tempfile, textwrap
sys.path.insert(0, os.environ.get("CNVKIT_ROOT", "/repo"))
import numpy as np, pandas as pd
from cnvlib.cnary import CopyNumArray as CNA
from cnvlib import segmentation

d = tempfile.mkdtemp()
fake = os.path.join(d, "Rscript")
open(fake, "w").write(textwrap.dedent('''\
    #!/venv/bin/python
    import re, sys
    script = open(sys.argv[-1]).read()
    fname = re.search(r'read.delim\\("([^"]+)"\\)', script).group(1)
    sid = re.search(r'sample="([^"]*)"', script).group(1)
    rows = [l.rstrip("\\n").split("\\t") for l in open(fname)]
    hdr, rows = rows[0], rows[1:]
    c = {h: i for i, h in enumerate(hdr)}
    print("\\t".join('"%s"' % h for h in ("sample", "chromosome", "start", "end", "nprobes", "value")))
    for r in rows:
        print("\\t".join(['"%s"' % sid, '"%s"' % r[c["chromosome"]], r[c["start"]], r[c["end"]], "1", r[c["log2"]]]))
    '''))
os.chmod(fake, os.stat(fake).st_mode | stat.S_IEXEC)
n = 8
bins = CNA(pd.DataFrame(dict(chromosome=["chr1"] * n, start=[1000 * i for i in range(n)], end=[1000 * i + 1000 for i in range(n)], gene=["g"] * n,
                             log2=[0.25] * n, depth=[10.0] * n, weight=[0.9, 0.8, 0.0, 0.7, 0.6, 0.5, 0.4, 0.3])), {"sample_id": "S"})
segs = segmentation.do_segmentation(bins, "flasso", threshold=0.005, skip_outliers=0, rscript_path=fake)
print(segs.data[["chromosome", "start", "end", "log2", "probes", "weight"]])
bad = segs.data["log2"].isna().any()
assert not bad, "flasso: a segment's log2 is NaN although every surviving bin has log2 0.25 (weights were aligned by index label after a bin was filtered out)"
assert np.allclose(segs.data["log2"], 0.25)
print("OK")
