"""C14: enumerate_changes summed the magnitudes of the level changes and truncated to int, so a step smaller than 1 did not start a new run.  A merged run's cn is a
weighted median (5.5 for a tie of 5 and 6), so `--filter ampdel --filter cn` merged two amplified runs of different level (5.5 and 6.0) across the neutral run
ampdel had dropped between them.  Exit 0 = defect absent."""
import os, sys
sys.path.insert(0, os.environ.get("CNVKIT_ROOT", "/repo"))
import pandas as pd
from cnvlib.cnary import CopyNumArray as CNA
from cnvlib import segfilters

ids = list(segfilters.enumerate_changes(pd.Series([5.5, 6.0, 6.0, 6.5, 7.0])))
assert ids[0] != ids[1] and ids[1] == ids[2] and ids[2] != ids[3] and ids[3] != ids[4], f"runs of equal level are not told apart: {ids}"
segs = CNA(pd.DataFrame(dict(chromosome=["chr1"] * 5, start=[0, 100, 200, 300, 400], end=[100, 200, 300, 400, 500], gene=["-"] * 5,
                             log2=[1.3, 1.6, 0.0, 1.6, 1.6], probes=[10] * 5, weight=[1.0] * 5, cn=[5, 6, 2, 6, 6])), {"sample_id": "S"})
out = segfilters.cn(segfilters.ampdel(segs))
print(out.data[["start", "end", "cn", "probes"]])
assert len(out) == 2 and list(out.start) == [0, 300] and list(out.end) == [200, 500], "ampdel + cn merged two runs of different copy number (5.5 and 6) across the dropped neutral run"
print("OK")
