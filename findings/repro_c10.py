"""Reproductions of the C10 defects found by cnvlint (run with /venv/bin/python; cwd anywhere).
Each prints DEFECT <id> when the current tree still shows the behaviour, OK <id> otherwise."""
import sys, io, warnings
import numpy as np, pandas as pd
sys.path.insert(0, "/repo") if "--repo" not in sys.argv else sys.path.insert(0, sys.argv[sys.argv.index("--repo") + 1])
from cnvlib.cnary import CopyNumArray as CNA
from cnvlib import call, reports, export, segmentation
from skgenome import tabio

def mk(n=6, chrom="chr1", extra=None):
    d = dict(chromosome=[chrom] * n, start=np.arange(n) * 100, end=np.arange(n) * 100 + 100, gene=["G%d" % (i // 2) for i in range(n)],
             log2=np.linspace(-1, 1, n), depth=np.ones(n), weight=np.ones(n) * .5)
    if extra: d.update(extra)
    return CNA(pd.DataFrame(d), {"sample_id": "s"})
res = {}
# 6: do_call consumes the caller's filter list
segs = mk(extra=dict(probes=[5] * 6, ci_lo=[-.1] * 6, ci_hi=[.1] * 6))
filters = ["ci", "cn"]
call.do_call(segs, filters=filters)
res["do_call(filters) mutated"] = filters != ["ci", "cn"]
# 7: by_gene extends a caller's ignore list
ign = ["G0"]
list(mk().by_gene(ignore=ign))
res["by_gene(ignore=list) mutated"] = ign != ["G0"]
ign = ["G0"]
try:
    reports.get_gene_intervals(mk(), ignore=ign)
except Exception as e:
    pass
res["get_gene_intervals(ignore=list) mutated"] = ign != ["G0"]
# 15: tabio.read writes into the caller's meta dict
buf = io.StringIO("chromosome\tstart\tend\tgene\tlog2\nchr1\t0\t10\tA\t0.1\n")
meta = {}
tabio.read(buf, "tab", sample_id="x", meta=meta)
res["tabio.read(meta) mutated"] = meta != {}
# 17: autosomes ORs into the caller's mask
c = CNA(pd.DataFrame(dict(chromosome=["chr1", "chrX", "chrX"], start=[0, 100000, 5000000], end=[10, 100100, 5000100], gene=list("abc"), log2=[0., 0, 0])))
also = pd.Series([False, False, False])
before = also.copy()
c.autosomes(diploid_parx_genome="grch38", also=also)
res["autosomes(also) mutated"] = not also.equals(before)
# export_nexus_ogt drops rows from the caller's array
from cnvlib.vary import VariantArray as VA
cn = mk(extra=dict(weight=[.1, .9, .9, .9, .9, .9]))
va = VA(pd.DataFrame(dict(chromosome=["chr1"], start=[150], end=[151], ref=["A"], alt=["C"], alt_freq=[.5], zygosity=[.5])), {})
n0 = len(cn)
try:
    export.export_nexus_ogt(cn, va, min_weight=0.5)
except Exception as e:
    print("nexus_ogt raised", type(e).__name__, e)
res["export_nexus_ogt(cnarr) mutated"] = len(cn) != n0
# 18: do_segmentation on an empty array (hmm path) reorders the caller's columns
e = mk()[:0]
e.data = e.data[["chromosome", "start", "end", "gene", "weight", "log2", "depth"]]
cols0 = list(e.data.columns)
try:
    with warnings.catch_warnings():
        warnings.simplefilter("ignore")
        segmentation.do_segmentation(e, "hmm")
except Exception as ex:
    print("do_segmentation(empty) raised", type(ex).__name__, ex)
res["do_segmentation(empty cnarr) mutated"] = list(e.data.columns) != cols0
for k, v in res.items():
    print(("DEFECT " if v else "OK     ") + k)
