import os, sys; sys.path.insert(0, os.getcwd())
import pandas as pd
from skgenome import GenomicArray as GA
dest = GA(pd.DataFrame({"chromosome": ["chr1"]*4, "start": [0, 100, 200, 300], "end": [50, 100, 250, 350], "gene": ["b0", "b1", "b2", "b3"]}))
dest = dest[dest.start != dest.end]                  # index labels 0, 2, 3
annot = GA(pd.DataFrame({"chromosome": ["chr1"], "start": [0], "end": [400]}))     # no gene column
dest["gene"] = annot.into_ranges(dest, "gene", "-")
print(dest.data)
assert list(dest["gene"]) == ["-", "-", "-"], list(dest["gene"])
print("OK")
