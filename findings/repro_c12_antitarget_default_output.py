"""C12 (command-line glue): `cnvkit.py antitarget targets.bed` without -o computes the bins and then fails with
AttributeError: 'Namespace' object has no attribute 'interval' -- the default output name is built from an option of the
`target` parser that `antitarget` does not declare (its positional is `targets`).  No antitarget BED is written.
Run in an empty directory: /venv/bin/python /verif/findings/repro_c12_antitarget_default_output.py  (exit 1 while the defect is present)"""
import os
import sys
import tempfile

from cnvlib import commands

with tempfile.TemporaryDirectory() as d:
    os.chdir(d)
    with open("my.target.bed", "w") as f:
        f.write("chr1\t1000\t2000\tG\nchr1\t500000\t501000\tH\n")
    with open("access.bed", "w") as f:
        f.write("chr1\t0\t2000000\n")
    args = commands.parse_args(["antitarget", "my.target.bed", "-g", "access.bed"])
    try:
        args.func(args)
    except AttributeError as exc:
        print("DEFECT:", exc)
        sys.exit(1)
    ok = os.path.exists("my.target.antitarget.bed")
    print("OK" if ok else "DEFECT: no my.target.antitarget.bed written; files: %s" % os.listdir("."))
    sys.exit(0 if ok else 1)
