import pandas as pd
from skgenome import GenomicArray as GA
a = GA(pd.DataFrame({"chromosome":["1"]*3,"start":[0,10,30],"end":[100,20,40],"gene":["a","b","c"]}))
r = a.in_range("1", 25, None)
print(r.data)
assert len(r)==2, "in_range('1',25,None) must return [0,100) and [30,40)"
b = GA(pd.DataFrame({"chromosome":["1"],"start":[0],"end":[10],"v":[1.0]}))
e = GA(b.data.iloc[:0])
out = e.into_ranges(a, "v", -1.0)
print(type(out), list(out))
assert isinstance(out, pd.Series) and len(out)==len(a) and all(out == -1.0)
print("OK")
