"""transfer_fields must stretch the first/last segment to the arm's first/last input bin (C03)."""
import warnings
import pandas as pd
from cnvlib.cnary import CopyNumArray as CNA
from cnvlib.segmentation import transfer_fields
bins = CNA(pd.DataFrame({"chromosome": ["chr1"] * 4, "start": [0, 100, 200, 300], "end": [100, 200, 300, 400], "gene": ["a", "b", "c", "d"],
                         "log2": [0.0, 0.1, 0.2, 0.3], "depth": [1.0] * 4, "weight": [1.0] * 4}))
# a segmenter saw only the two middle bins (edge bins were filtered out)
segs = CNA(pd.DataFrame({"chromosome": ["chr1"], "start": [100], "end": [300], "gene": ["-"], "log2": [0.15], "probes": [2]}))
with warnings.catch_warnings():
    warnings.simplefilter("ignore")
    out = transfer_fields(segs, bins)
print(out.data[["chromosome", "start", "end"]])
assert out.start.iat[0] == 0 and out.end.iat[-1] == 400, "segment was not stretched to the arm's first/last bin"
print("OK")
