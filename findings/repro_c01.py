"""C01: clonal call with purity can report a negative copy number."""
import sys
sys.path.insert(0, sys.argv[sys.argv.index("--repo") + 1] if "--repo" in sys.argv else "/repo")
import numpy as np, pandas as pd
from cnvlib.cnary import CopyNumArray as CNA
from cnvlib import call
seg = CNA(pd.DataFrame(dict(chromosome=["chr1", "chr1"], start=[0, 100], end=[100, 200], gene=["a", "b"], log2=[-5.0, 0.0], probes=[10, 10])), {"sample_id": "s"})
out = call.do_call(seg, method="clonal", purity=0.5, ploidy=2)
print(out.data[["log2", "cn"]])
print("DEFECT negative cn" if (out["cn"] < 0).any() else "OK cn >= 0")
