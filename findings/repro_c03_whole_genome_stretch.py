"""C03: transfer_fields stretches the first / last segment to cnarr's first / last bin.  That is right for the per-arm methods
(cnarr is one arm), but flasso / hmm* hand it the whole genome: when every bin of the last chromosome is filtered out
(chrY of a female sample with --drop-low-coverage), the last segment of the previous chromosome gets chrY's last bin end --
outside its chromosome's span and, here, before its own start.  When the first chromosome is wholly filtered, an assertion fails.
Run: /venv/bin/python /verif/findings/repro_c03_whole_genome_stretch.py   (exit 1 while the defect is present)"""
import sys
import numpy as np
import pandas as pd
from cnvlib.cnary import CopyNumArray as CNA
from cnvlib.segmentation import do_segmentation

rng = np.random.default_rng(0)


def table(levels):
    rows = []
    for chrom, n, lv, off in levels:
        for i in range(n):
            rows.append((chrom, off + i * 1000, off + i * 1000 + 500, "G%d" % (i // 10), lv + rng.normal(0, 0.1), 10.0, 1.0))
    return CNA(pd.DataFrame(rows, columns=["chromosome", "start", "end", "gene", "log2", "depth", "weight"]), {"sample_id": "s"})


bad = 0
for name, levels in (("last chromosome wholly low-coverage", (("chr1", 60, 0.0, 1000000), ("chrX", 60, 0.0, 1000000), ("chrY", 20, -25.0, 100000))),
                     ("first chromosome wholly low-coverage", (("chr1", 20, -25.0, 100000), ("chr2", 60, 0.0, 1000000), ("chr3", 60, 0.0, 1000000)))):
    cn = table(levels)
    try:
        segs = do_segmentation(cn, "hmm", skip_low=True)
    except AssertionError as exc:
        print(name, "-> AssertionError", exc)
        bad += 1
        continue
    for chrom, sub in segs.by_chromosome():
        b = cn[cn.chromosome == chrom]
        ok = (sub.start < sub.end).all() and sub.start.min() >= b.start.min() and sub.end.max() <= b.end.max()
        if not ok:
            print(name, "->", chrom, "segments", list(zip(sub.start, sub.end)), "bins span", (b.start.min(), b.end.max()))
            bad += 1
print("OK" if not bad else "DEFECT")
sys.exit(1 if bad else 0)
