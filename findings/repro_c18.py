"""TumorBoost frequencies must stay attached to their own variants (C18)."""
import numpy as np, pandas as pd
from cnvlib.vary import VariantArray as VA
d = pd.DataFrame({"chromosome": ["chr1"] * 5, "start": [10, 20, 30, 40, 50], "end": [11, 21, 31, 41, 51], "ref": ["A"] * 5, "alt": ["C"] * 5,
                  "zygosity": [0.5, 0.0, 0.5, 0.5, 1.0], "n_zygosity": [0.5, 0.0, 0.5, 0.5, 1.0],
                  "alt_freq": [0.4, 0.0, 0.7, 0.5, 1.0], "n_alt_freq": [0.5, 0.0, 0.5, 0.45, 1.0]})
v = VA(d)
het = v.heterozygous()                      # rows 0, 2, 3 keep their labels
boost = het.tumor_boost()
want = [0.5 * 0.4 / 0.5, 1 - 0.5 * (1 - 0.7) / (1 - 0.5), 1 - 0.5 * (1 - 0.5) / (1 - 0.45)]
het["alt_freq"] = boost
got = list(het["alt_freq"])
print("stored:", got, "want:", want)
assert np.allclose(got, want), "TumorBoost values landed on the wrong variants / became NaN"
segs = VA(pd.DataFrame({"chromosome": ["chr1"], "start": [0], "end": [100], "ref": ["N"], "alt": ["N"]}))
b = v.baf_by_ranges(segs, tumor_boost=True)
assert not np.isnan(b).any(), b
print("OK")
