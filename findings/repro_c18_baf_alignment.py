import os, sys; sys.path.insert(0, os.getcwd())
import numpy as np, pandas as pd
from cnvlib import call, vary
from cnvlib.cnary import CopyNumArray as CNA
segs = CNA(pd.DataFrame({"chromosome": ["chr1"]*4, "start": [0, 1000, 2000, 3000], "end": [1000, 2000, 3000, 4000], "gene": "-", "log2": [0.0, 0.0, 0.0, 0.0], "probes": 10, "weight": 1.0}), {"sample_id": "S"})
v = vary.VariantArray(pd.DataFrame({"chromosome": ["chr1"]*4, "start": [500, 1500, 2500, 3500], "end": [501, 1501, 2501, 3501], "ref": "A", "alt": "C", "zygosity": 0.5, "alt_freq": [0.1, 0.2, 0.3, 0.4]}), {"sample_id": "S"})
sub = segs[segs.start >= 1000]          # index labels 1, 2, 3
out = call.do_call(sub, v, method="threshold")
print(out.data[["start", "baf"]])
want = [0.2, 0.3, 0.4]
got = list(out["baf"])
assert np.allclose(got, want, equal_nan=False), (got, want)
print("OK")
