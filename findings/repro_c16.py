"""by_gene must yield every bin exactly once (C16)."""
import pandas as pd
from cnvlib.cnary import CopyNumArray as CNA
genes = ["Antitarget", "A", "A", "Antitarget", "B", "B", "B", "Antitarget", "Antitarget"]
d = pd.DataFrame({"chromosome": ["chr1"] * 9, "start": [i * 100 for i in range(9)], "end": [i * 100 + 100 for i in range(9)],
                  "gene": genes, "log2": [0.0] * 9})
# second chromosome so that the per-chromosome subset's index labels are not 0..n-1
d2 = d.copy(); d2["chromosome"] = "chr2"
arr = CNA(pd.concat([d, d2], ignore_index=True))
seen = []
for gene, sub in arr.by_gene():
    for r in sub.data.itertuples():
        seen.append((r.chromosome, r.start, gene))
coords = [(c, s) for c, s, _ in seen]
dups = sorted({x for x in coords if coords.count(x) > 1})
missing = sorted(set(zip(arr.chromosome, arr.start)) - set(coords))
print("yielded", len(coords), "rows for", len(arr), "bins; duplicated:", dups, "missing:", missing)
for (c, s, g), want in zip(sorted(seen), sorted(zip(arr.chromosome, arr.start, arr["gene"]))):
    pass
assert not dups and not missing and len(coords) == len(arr), "each bin must be yielded exactly once"
# one trailing intergenic bin must not be lost
one = CNA(pd.DataFrame({"chromosome": ["chr1"] * 3, "start": [0, 100, 200], "end": [100, 200, 300], "gene": ["A", "A", "Antitarget"], "log2": [0.0] * 3}))
n = sum(len(sub) for _g, sub in one.by_gene())
assert n == 3, f"single trailing bin lost: yielded {n} of 3"
print("OK")
