"""C19: weighted median tie rule, scale estimators on a single value, mode of constant data."""
import numpy as np
from cnvlib import descriptives as d
m = d.weighted_median(np.array([1.0, 2.0, 3.0]), np.array([1.0, 1.0, 1.0]))
print("weighted_median([1,2,3],[1,1,1]) =", m)
assert m == 2.0
rng = np.random.RandomState(1)
for _ in range(2000):
    n = rng.randint(2, 9)
    a = rng.randint(0, 6, n).astype(float); w = rng.randint(0, 4, n).astype(float)
    if w.sum() == 0: continue
    m = d.weighted_median(a, w)
    half = w.sum() / 2
    assert w[a < m].sum() <= half + 1e-9 and w[a > m].sum() <= half + 1e-9, (a, w, m)
assert d.weighted_median(np.array([1., 2., 3., 4.]), np.ones(4)) == 2.5
print("weighted_std([-3],[1]) =", d.weighted_std([-3.0], [1.0]), " weighted_mad([-3],[1]) =", d.weighted_mad([-3.0], [1.0]))
assert d.weighted_std([-3.0], [1.0]) == 0 and d.weighted_mad([-3.0], [1.0]) == 0
print("modal_location([5,5,5]) =", d.modal_location([5.0, 5.0, 5.0]))
assert d.modal_location([5.0, 5.0, 5.0]) == 5.0
print("OK")
