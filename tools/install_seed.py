#!/usr/bin/env python3
"""install_seed.py <id> [<id> ...] : copy a confirmed seeded change from /tmp/seed/out/<id> into /verif/seeded/<id>/
(patch.diff, demo.py, notes.md from the sub-agent, meta.json with what I confirmed)."""
import json, os, re, shutil, sys
V = os.path.dirname(os.path.dirname(os.path.abspath(__file__)))
for sid in sys.argv[1:]:
    src = f"/tmp/seed/out/{sid}"
    res = open(f"/tmp/confirm/{sid}.result").read().strip()
    kv = dict(x.split("=", 1) for x in res.split() if "=" in x)
    ok = kv.get("demo_clean_exit") == "0" and kv.get("demo_changed_exit") not in ("0", None) and "suite_ok" in res and kv.get("compile") == "0"
    if not ok:
        print("NOT CONFIRMED", sid, res); continue
    dst = os.path.join(V, "seeded", sid)
    os.makedirs(dst, exist_ok=True)
    for f in ("patch.diff", "demo.py", "notes.md"):
        if os.path.exists(os.path.join(src, f)):
            shutil.copy(os.path.join(src, f), os.path.join(dst, f))
    notes = open(os.path.join(src, "notes.md")).read() if os.path.exists(os.path.join(src, "notes.md")) else ""
    files = re.findall(r"^\+\+\+ b/(\S+)", open(os.path.join(src, "patch.diff")).read(), re.M)
    meta = {
        "id": sid, "property": sid[:3], "files_changed": files,
        "origin": "fresh sub-agent given only the property text and a scratch worktree (nothing from /verif)",
        "needs_to_manifest": "see notes.md (written by the sub-agent): trigger input / sequence",
        "confirmed_by_me": {
            "how": "tools/confirm_seed.sh: scratch worktree of /repo HEAD under /tmp/confirm; demo.py on clean tree; git apply patch.diff; "
                   "compileall; demo.py again; full baseline pytest command compared with BASELINE.json stable_pass; worktree removed",
            "repo_head": kv.get("head"), "demo_exit_clean": int(kv["demo_clean_exit"]), "demo_exit_changed": int(kv["demo_changed_exit"]),
            "baseline_suite": "all 61 stable tests still pass with the change",
        },
    }
    json.dump(meta, open(os.path.join(dst, "meta.json"), "w"), indent=1)
    print("installed", sid)
