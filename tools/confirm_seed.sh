#!/bin/bash
# confirm_seed.sh <id> : independently confirm a seeded change delivered in /tmp/seed/out/<id>/ (patch.diff, demo.py):
# scratch worktree of /repo HEAD; demo passes clean; patch applies; demo fails with it; the baseline suite is unchanged.
id=$1
src=/tmp/seed/out/$id
wt=/tmp/confirm/$id
res=/tmp/confirm/$id.result
mkdir -p /tmp/confirm
rm -f $res
git -C /repo worktree remove --force $wt 2>/dev/null
git -C /repo worktree add -q --detach $wt HEAD || { echo "worktree failed" > $res; exit 2; }
cd $wt
/venv/bin/python $src/demo.py > /tmp/confirm/$id.demo_clean.log 2>&1; c1=$?
if ! git apply $src/patch.diff 2> /tmp/confirm/$id.apply.log; then echo "id=$id APPLY-FAILED" > $res; cd /; git -C /repo worktree remove --force $wt; exit 1; fi
/venv/bin/python -c "import compileall,sys; sys.exit(0 if compileall.compile_dir('cnvlib',quiet=1) and compileall.compile_dir('skgenome',quiet=1) else 1)"; cc=$?
/venv/bin/python $src/demo.py > /tmp/confirm/$id.demo_changed.log 2>&1; c2=$?
/venv/bin/python -m pytest -ra -q -p no:cacheprovider --timeout=900 --continue-on-collection-errors --junitxml=/tmp/confirm/$id.xml test/ > /tmp/confirm/$id.pytest.log 2>&1
t=$(/venv/bin/python - /tmp/confirm/$id.xml <<'PY'
import json, sys, xml.etree.ElementTree as ET
base = set(json.load(open("/root/.vp/BASELINE.json"))["stable_pass"])
t = ET.parse(sys.argv[1]); passed = set()
for tc in t.iter("testcase"):
    name = f"{tc.get('classname')}::{tc.get('name')}"
    if not any(c.tag in ("failure", "error", "skipped") for c in tc): passed.add(name)
print("suite_ok" if base <= passed else "suite_BROKEN:" + ",".join(sorted(base - passed)))
PY
)
echo "id=$id demo_clean_exit=$c1 compile=$cc demo_changed_exit=$c2 $t head=$(git -C /repo rev-parse --short HEAD)" > $res
cd /
git -C /repo worktree remove --force $wt
cat $res
