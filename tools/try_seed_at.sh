#!/bin/bash
# try_seed_at.sh <dir-with-patch.diff> <tree> [pids...] : like try_seed.sh, but on another checkout of the repository (CNVLINT_REPO), e.g. a
# scratch worktree while tools/seed_matrix.py is busy patching /repo.
d=$1; root=$2; shift; shift
pids=${@:-"C01 C02 C03 C04 C05 C06 C07 C08 C09 C10 C12 C13 C14 C15 C16 C17 C18 C19 C20"}
cd $root || exit 2
git diff --quiet || { echo "$root not clean"; exit 2; }
git apply "$d/patch.diff" || { echo "patch does not apply"; exit 2; }
cd /verif
for p in $pids; do
  [ -f cnvlint/props/$p.py ] || continue
  out=$(CNVLINT_REPO=$root /venv/bin/python -m cnvlint check $p --nowrite 2>&1 | grep -E -A1 "^(VIOLATION|ANALYSIS-ERROR)" | cut -c1-260 | head -8)
  [ -n "$out" ] && echo "== $p" && echo "$out"
done
git -C $root checkout -- .
git -C $root status --short
