#!/usr/bin/env python3
"""seed_matrix.py [ids...] : apply every /verif/seeded/<id>/patch.diff to /repo in turn, run all quick checks (--nowrite), undo;
write /verif/seeded/RESULTS.json and print the detection matrix."""
import glob, json, os, subprocess, sys
V = os.path.dirname(os.path.dirname(os.path.abspath(__file__)))
PY = "/venv/bin/python"
ids = sys.argv[1:] or sorted(os.path.basename(d) for d in glob.glob(os.path.join(V, "seeded", "C*")) if os.path.isdir(d))
props = sorted(os.path.basename(p)[:-3] for p in glob.glob(os.path.join(V, "cnvlint", "props", "C*.py")))
respath = os.path.join(V, "seeded", "RESULTS.json")
results = json.load(open(respath)) if os.path.exists(respath) else {}
assert subprocess.run(["git", "-C", "/repo", "diff", "--quiet"]).returncode == 0, "/repo not clean"
for sid in ids:
    patch = os.path.join(V, "seeded", sid, "patch.diff")
    if subprocess.run(["git", "-C", "/repo", "apply", patch]).returncode != 0:
        results[sid] = {"error": "patch does not apply to current /repo HEAD"}; print(sid, "PATCH DOES NOT APPLY"); continue
    try:
        procs = {p: subprocess.Popen([PY, "-m", "cnvlint", "check", p, "--nowrite"], cwd=V, stdout=subprocess.PIPE, stderr=subprocess.STDOUT, text=True) for p in props}
        det = {}
        for p, pr in procs.items():
            out = pr.communicate()[0]
            if pr.returncode == 1:
                det[p] = [l.strip()[:260] for l in out.splitlines() if l.startswith("   ")][:3]
            elif pr.returncode == 2:
                det[p] = ["ANALYSIS-ERROR (exit 2): " + next((l for l in out.splitlines() if l.startswith("ANALYSIS-ERROR")), "")[:200]]
    finally:
        subprocess.run(["git", "-C", "/repo", "checkout", "--", "."])
    own = sid[:3]
    caught = [p for p, v in det.items() if not v[0].startswith("ANALYSIS-ERROR")]
    results[sid] = {"property": own, "detected_by": caught, "undecided": [p for p in det if p not in caught],
                    "reports": {p: det[p] for p in det}, "head": subprocess.check_output(["git", "-C", "/repo", "rev-parse", "--short", "HEAD"], text=True).strip()}
    meta = json.load(open(os.path.join(V, "seeded", sid, "meta.json")))
    oos = meta.get("outside_property_quantifier")
    if oos:
        results[sid]["outside_property_quantifier"] = oos
    print(f"{sid}: {'CAUGHT by ' + ','.join(caught) if caught else ('SILENT (manifests only outside the property quantifier)' if oos else 'MISSED')}" + (f"  (exit 2 in {results[sid]['undecided']})" if results[sid]['undecided'] else ""))
json.dump(results, open(respath, "w"), indent=1, sort_keys=True)
