#!/bin/bash
# confirm_refactor.sh <id> : independently confirm a behaviour-preserving refactoring delivered in /tmp/seed/outR/<id>/ (patch.diff, equiv.py):
# scratch worktree of /repo HEAD; equiv.py output on the clean tree; patch applies; equiv.py output with it is byte-identical; baseline suite unchanged.
id=$1
src=/tmp/seed/outR/$id
wt=/tmp/confirmR/$id
res=/tmp/confirmR/$id.result
mkdir -p /tmp/confirmR
rm -f $res
git -C /repo worktree remove --force $wt 2>/dev/null
git -C /repo worktree add -q --detach $wt HEAD || { echo "worktree failed" > $res; exit 2; }
cd $wt
/venv/bin/python $src/equiv.py > /tmp/confirmR/$id.clean.out 2>/tmp/confirmR/$id.clean.err; c1=$?
if ! git apply $src/patch.diff 2> /tmp/confirmR/$id.apply.log; then echo "id=$id APPLY-FAILED" > $res; cd /; git -C /repo worktree remove --force $wt; exit 1; fi
/venv/bin/python -c "import compileall,sys; sys.exit(0 if compileall.compile_dir('cnvlib',quiet=1) and compileall.compile_dir('skgenome',quiet=1) else 1)"; cc=$?
/venv/bin/python $src/equiv.py > /tmp/confirmR/$id.changed.out 2>/tmp/confirmR/$id.changed.err; c2=$?
if cmp -s /tmp/confirmR/$id.clean.out /tmp/confirmR/$id.changed.out; then same=identical; else same=DIFFERENT; fi
size=$(wc -c < /tmp/confirmR/$id.clean.out)
/venv/bin/python -m pytest -ra -q -p no:cacheprovider --timeout=900 --continue-on-collection-errors --junitxml=/tmp/confirmR/$id.xml test/ > /tmp/confirmR/$id.pytest.log 2>&1
t=$(/venv/bin/python - /tmp/confirmR/$id.xml <<'PY'
import json, sys, xml.etree.ElementTree as ET
base = set(json.load(open("/root/.vp/BASELINE.json"))["stable_pass"])
t = ET.parse(sys.argv[1]); passed = set()
for tc in t.iter("testcase"):
    name = f"{tc.get('classname')}::{tc.get('name')}"
    if not any(c.tag in ("failure", "error", "skipped") for c in tc): passed.add(name)
print("suite_ok" if base <= passed else "suite_BROKEN:" + ",".join(sorted(base - passed)))
PY
)
echo "id=$id equiv_clean_exit=$c1 compile=$cc equiv_changed_exit=$c2 outputs=$same output_bytes=$size $t head=$(git -C /repo rev-parse --short HEAD)" > $res
cd /
git -C /repo worktree remove --force $wt
cat $res
