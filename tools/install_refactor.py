#!/usr/bin/env python3
"""install_refactor.py <id> [...] : copy a confirmed behaviour-preserving refactoring from /tmp/seed/outR/<id> into /verif/refactors/<id>/"""
import json, os, re, shutil, sys
V = os.path.dirname(os.path.dirname(os.path.abspath(__file__)))
for sid in sys.argv[1:]:
    src = f"/tmp/seed/outR/{sid}"
    res = open(f"/tmp/confirmR/{sid}.result").read().strip()
    kv = dict(x.split("=", 1) for x in res.split() if "=" in x)
    ok = kv.get("equiv_clean_exit") == "0" and kv.get("equiv_changed_exit") == "0" and kv.get("outputs") == "identical" and "suite_ok" in res and kv.get("compile") == "0" and int(kv.get("output_bytes", "0")) > 0
    if not ok:
        print("NOT CONFIRMED", sid, res); continue
    dst = os.path.join(V, "refactors", sid)
    os.makedirs(dst, exist_ok=True)
    for f in ("patch.diff", "equiv.py", "notes.md"):
        if os.path.exists(os.path.join(src, f)):
            shutil.copy(os.path.join(src, f), os.path.join(dst, f))
    files = re.findall(r"^\+\+\+ b/(\S+)", open(os.path.join(src, "patch.diff")).read(), re.M)
    meta = {"id": sid, "property": sid[:3], "files_changed": files, "kind": "behaviour-preserving refactoring (the checks must stay silent on it)",
            "origin": "fresh sub-agent given only the property text, its quantifier and a scratch worktree (nothing from /verif)",
            "confirmed_by_me": {"how": "tools/confirm_refactor.sh: scratch worktree of /repo HEAD; equiv.py output on the clean tree and with the patch byte-identical "
                                       f"({kv.get('output_bytes')} bytes); compileall; full baseline pytest command compared with BASELINE.json stable_pass; worktree removed",
                                "repo_head": kv.get("head")}}
    json.dump(meta, open(os.path.join(dst, "meta.json"), "w"), indent=1)
    print("installed", sid)
