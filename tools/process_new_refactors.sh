#!/bin/bash
# confirm (in the background) every delivered refactoring not confirmed yet; install + evaluate those already confirmed
cd /verif
mkdir -p /tmp/confirmR
for d in /tmp/seed/outR/C[0-9][0-9][a-z]; do
  id=$(basename $d)
  [ -f $d/patch.diff ] && [ -f $d/equiv.py ] && [ -f $d/notes.md ] || continue
  if [ ! -f /tmp/confirmR/$id.result ] && [ ! -f /tmp/confirmR/$id.started ]; then
    touch /tmp/confirmR/$id.started
    (tools/confirm_refactor.sh $id > /dev/null 2>&1 &)
    echo "confirming $id"
  fi
done
new=""
for r in /tmp/confirmR/*.result; do
  [ -f "$r" ] || continue
  id=$(basename $r .result)
  [ -d refactors/$id ] && continue
  if grep -q "outputs=identical" $r && grep -q "suite_ok" $r && grep -q "equiv_clean_exit=0" $r && grep -q "equiv_changed_exit=0" $r; then
    /venv/bin/python tools/install_refactor.py $id | tail -1
    new="$new $id"
  else
    echo "NOT CONFIRMED: $(cat $r)"
  fi
done
[ -n "$new" ] && /venv/bin/python tools/matrix_par.py --refactors -j 6 $new
