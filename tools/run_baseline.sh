#!/bin/bash
# Run the pinned baseline suite on /repo's working tree and compare against BASELINE.json's stable_pass list.
out=${1:-/tmp/baseline_run.xml}
cd /repo && /venv/bin/python -m pytest -ra -q -p no:cacheprovider --timeout=900 --continue-on-collection-errors --junitxml=$out > ${out%.xml}.log 2>&1
/venv/bin/python - "$out" <<'PY'
import json, sys, xml.etree.ElementTree as ET
base = set(json.load(open("/root/.vp/BASELINE.json"))["stable_pass"])
t = ET.parse(sys.argv[1]); passed = set(); failed = set()
for tc in t.iter("testcase"):
    name = f"{tc.get('classname')}::{tc.get('name')}"
    if any(c.tag in ("failure", "error") for c in tc): failed.add(name)
    elif any(c.tag == "skipped" for c in tc): pass
    else: passed.add(name)
missing = sorted(base - passed)
print("passed", len(passed), "failed", len(failed), "baseline", len(base), "baseline-missing", missing)
print("newly passing:", sorted(passed - base))
sys.exit(1 if missing else 0)
PY
rm -f /repo/test/chrM-Y-trunc.hg19.bed
