#!/usr/bin/env python3
"""set_level_text.py: apply (old, new) replacements to a props module's LEVEL_TEXT / TECHNIQUE (evaluated strings) and re-emit the literal."""
import ast, sys, textwrap


def rewrite(path, name, pairs):
    src = open(path).read()
    tree = ast.parse(src)
    node = next(n for n in tree.body if isinstance(n, ast.Assign) and isinstance(n.targets[0], ast.Name) and n.targets[0].id == name)
    text = ast.literal_eval(node.value)
    for old, new in pairs:
        if old not in text:
            print(f"MISSING in {path} {name}: {old[:80]}")
            continue
        text = text.replace(old, new, 1)
    chunks = textwrap.wrap(text, 130, break_long_words=False, drop_whitespace=False)
    indent = " " * (len(name) + 4)
    lit = "(" + ("\n" + indent).join(repr(c) for c in chunks) + ")"
    lines = src.splitlines(keepends=True)
    start = sum(len(l) for l in lines[:node.value.lineno - 1]) + node.value.col_offset
    end = sum(len(l) for l in lines[:node.value.end_lineno - 1]) + node.value.end_col_offset
    # include surrounding parentheses if the value was parenthesised
    while src[start - 1] in " \n(" and src[start - 1] == "(":
        start -= 1
    while end < len(src) and src[end] in " \n)" and src[end] != "\n":
        if src[end] == ")":
            end += 1
            break
        end += 1
    open(path, "w").write(src[:start] + lit + src[end:])
