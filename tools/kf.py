#!/usr/bin/env python3
"""kf.py <property> <key> <status open|fixed> <commit-subject-fragment|-> <what...>  -- edit known_findings.json (never used by checks at run time)"""
import json, subprocess, sys, os
P = os.path.join(os.path.dirname(os.path.dirname(os.path.abspath(__file__))), "known_findings.json")
prop, key, status, frag = sys.argv[1:5]
what = " ".join(sys.argv[5:])
d = json.load(open(P))
commit = None
if frag != "-":
    out = subprocess.check_output(["git", "-C", "/repo", "log", "--format=%h %s"]).decode().splitlines()
    commit = [l.split()[0] for l in out if frag in l][0]
d["findings"] = [f for f in d["findings"] if f["key"] != key]
e = dict(property=prop, key=key, status=status, what=what)
if commit: e["commit"] = commit
d["findings"].append(e)
json.dump(d, open(P, "w"), indent=1)
print("recorded", key, status, commit)
