#!/bin/bash
# confirm (in the background) every delivered seed that has not been confirmed yet; install + evaluate those already confirmed
cd /verif
for d in /tmp/seed/out/C[0-9][0-9][a-z]; do
  id=$(basename $d)
  [ -f $d/patch.diff ] && [ -f $d/demo.py ] && [ -f $d/notes.md ] || continue
  if [ ! -f /tmp/confirm/$id.result ] && [ ! -f /tmp/confirm/$id.started ]; then
    touch /tmp/confirm/$id.started
    (tools/confirm_seed.sh $id > /dev/null 2>&1 &)
    echo "confirming $id"
  fi
done
new=""
for r in /tmp/confirm/*.result; do
  id=$(basename $r .result)
  [ -d seeded/$id ] && continue
  if grep -q "demo_clean_exit=0" $r && grep -q "suite_ok" $r && ! grep -q "demo_changed_exit=0" $r; then
    /venv/bin/python tools/install_seed.py $id | tail -1
    new="$new $id"
  else
    echo "NOT CONFIRMED: $(cat $r)"
  fi
done
[ -n "$new" ] && /venv/bin/python tools/matrix_par.py --seeds --all-props -j 6 $new
