#!/usr/bin/env python3
"""matrix_par.py (--seeds | --refactors) [--all-props] [-j N] [ids...]

Parallel re-evaluation of the stored changes WITHOUT touching /repo or the live /verif/cnvlint: N scratch worktrees of /repo HEAD under /tmp/mx/t<k>, a
frozen copy of /verif/cnvlint under /tmp/mx/code, every stored patch applied to a scratch tree in turn and the checks run on it with CNVLINT_REPO.

  --seeds      /verif/seeded/<id>/patch.diff : a change that breaks property <id[:3]>; by default only that property's own check is run
  --refactors  /verif/refactors/<id>/patch.diff : a behaviour-preserving rewrite; every check is run (any exit 1 is a false alarm)
  --all-props  run every property's check for seeds too

Results are merged into seeded/RESULTS.json (field `own_check`, and `detected_by` / `undecided` / `reports` when --all-props) resp. refactors/RESULTS.json.
The scratch trees are removed at the end."""
import glob, json, os, shutil, subprocess, sys, threading, queue
V = os.path.dirname(os.path.dirname(os.path.abspath(__file__)))
PY = "/venv/bin/python"
args = sys.argv[1:]
mode = "seeds" if "--seeds" in args else "refactors" if "--refactors" in args else None
assert mode, __doc__
allp = "--all-props" in args or mode == "refactors"
J = int(args[args.index("-j") + 1]) if "-j" in args else 6
ids = [a for i, a in enumerate(args) if not a.startswith("-") and (i == 0 or args[i - 1] != "-j")]
sub = "seeded" if mode == "seeds" else "refactors"
ids = ids or sorted(os.path.basename(d) for d in glob.glob(os.path.join(V, sub, "C*")) if os.path.isdir(d))
props = sorted(os.path.basename(p)[:-3] for p in glob.glob(os.path.join(V, "cnvlint", "props", "C*.py")))
if os.environ.get("MX_PROPS"):          # restrict the checks run (after a change to only some of them)
    props = [p for p in props if p in os.environ["MX_PROPS"].split(",")]
MX = f"/tmp/mx.{os.getpid()}"          # one scratch area per run: several runs may be in flight
subprocess.run(["git", "-C", "/repo", "worktree", "prune"])
os.makedirs(MX)
shutil.copytree(os.path.join(V, "cnvlint"), os.path.join(MX, "code", "cnvlint"), ignore=shutil.ignore_patterns("__pycache__"))
for f in ("properties.jsonl", "known_findings.json"):
    if os.path.exists(os.path.join(V, f)):
        shutil.copy(os.path.join(V, f), os.path.join(MX, "code", f))
for extra in ("findings", "seeded", "refactors"):
    # mutate.py / selftest helpers may look these up relative to the package; the checks themselves do not need them
    pass
head = subprocess.check_output(["git", "-C", "/repo", "rev-parse", "--short", "HEAD"], text=True).strip()
trees = []
for k in range(J):
    t = f"{MX}/t{k}"
    subprocess.run(["git", "-C", "/repo", "worktree", "add", "-q", "--detach", t, "HEAD"], check=True)
    trees.append(t)
respath = os.path.join(V, sub, "RESULTS.json")
results = json.load(open(respath)) if os.path.exists(respath) else {}
lock = threading.Lock()
q = queue.Queue()
for sid in ids:
    q.put(sid)


def run_checks(tree, which):
    env = dict(os.environ, CNVLINT_REPO=tree)
    procs = {p: subprocess.Popen([PY, "-m", "cnvlint", "check", p, "--nowrite"], cwd=os.path.join(MX, "code"), env=env, stdout=subprocess.PIPE, stderr=subprocess.STDOUT, text=True) for p in which}
    det, und = {}, {}
    for p, pr in procs.items():
        out = pr.communicate()[0]
        if pr.returncode == 1:
            det[p] = [l.strip()[:260] for l in out.splitlines() if l.startswith("   ")][:3]
        elif pr.returncode == 2:
            und[p] = next((l for l in out.splitlines() if l.startswith("ANALYSIS-ERROR")), "")[:260]
        elif pr.returncode != 0:
            und[p] = f"exit {pr.returncode}: " + out[-200:]
    return det, und


def worker(tree):
    while True:
        try:
            sid = q.get_nowait()
        except queue.Empty:
            return
        patch = os.path.join(V, sub, sid, "patch.diff")
        if subprocess.run(["git", "-C", tree, "apply", patch], stderr=subprocess.DEVNULL).returncode != 0:
            with lock:
                results.setdefault(sid, {})["error"] = f"patch does not apply to /repo HEAD {head}"
                print(sid, "PATCH DOES NOT APPLY", flush=True)
            continue
        try:
            det, und = run_checks(tree, props if allp else [sid[:3]])
        finally:
            subprocess.run(["git", "-C", tree, "checkout", "--", "."])
            subprocess.run(["git", "-C", tree, "clean", "-fdq"])
        own = sid[:3]
        with lock:
            r = results.setdefault(sid, {"property": own})
            r.pop("error", None)
            r["head"] = head
            if mode == "seeds":
                r["own_check"] = "detected" if own in det else ("undecided (exit 2)" if own in und else "silent")
                r.setdefault("reports", {})
                if own in det:
                    r["reports"][own] = det[own]
                if allp:
                    r["detected_by"] = sorted(det)
                    r["undecided"] = sorted(und)
                    r["reports"] = dict(det, **{p: ["ANALYSIS-ERROR (exit 2): " + v] for p, v in und.items()})
                else:
                    r["detected_by"] = sorted(set(r.get("detected_by", [])) - {own} | ({own} if own in det else set()))
                    r["undecided"] = sorted(set(r.get("undecided", [])) - {own} | ({own} if own in und else set()))
                meta = json.load(open(os.path.join(V, sub, sid, "meta.json")))
                oos = meta.get("outside_property_quantifier")
                if oos:
                    r["outside_property_quantifier"] = oos
                tag = "CAUGHT by its own check" if own in det else ("UNDECIDED (exit 2): " + und[own][:120] if own in und else ("SILENT (manifests only outside the property quantifier)" if oos else "MISSED by its own check"))
                print(f"{sid}: {tag}" + (f"  [others: {','.join(sorted(set(det) - {own}))}]" if allp and set(det) - {own} else ""), flush=True)
            else:
                r.update(alarms=det, undecided=und)
                print(f"{sid}: {'ALARM in ' + ','.join(sorted(det)) if det else 'SILENT'}" + (f"  (exit 2 in {sorted(und)})" if und else ""), flush=True)


ths = [threading.Thread(target=worker, args=(t,)) for t in trees]
for t in ths:
    t.start()
for t in ths:
    t.join()
json.dump(results, open(respath, "w"), indent=1, sort_keys=True)
for t in trees:
    subprocess.run(["git", "-C", "/repo", "worktree", "remove", "--force", t])
shutil.rmtree(MX, ignore_errors=True)
subprocess.run(["git", "-C", "/repo", "worktree", "prune"])
if mode == "seeds":
    own_bad = [s for s in ids if results.get(s, {}).get("own_check") not in ("detected",) and not results.get(s, {}).get("outside_property_quantifier")]
    print(f"SUMMARY: {len(ids)} seeds, {len(ids) - len(own_bad)} detected by their own property's check (or outside the quantifier), not detected: {own_bad}")
else:
    bad = [s for s in ids if results.get(s, {}).get("alarms") or results.get(s, {}).get("undecided")]
    print(f"SUMMARY: {len(ids)} refactorings, {len(ids) - len(bad)} silent, alarms / undecided: {bad}")
