#!/usr/bin/env python3
"""refactor_matrix.py [ids...] : apply every /verif/refactors/<id>/patch.diff to /repo in turn, run all quick checks (--nowrite), undo;
write /verif/refactors/RESULTS.json.  A refactoring is behaviour-preserving: SILENT = every check exit 0; ALARM = some check exit 1 (a false alarm of the
machinery); UNDECIDED = some check exit 2 (the check cannot follow the rewritten code)."""
import glob, json, os, subprocess, sys
V = os.path.dirname(os.path.dirname(os.path.abspath(__file__)))
PY = "/venv/bin/python"
ids = sys.argv[1:] or sorted(os.path.basename(d) for d in glob.glob(os.path.join(V, "refactors", "C*")) if os.path.isdir(d))
props = sorted(os.path.basename(p)[:-3] for p in glob.glob(os.path.join(V, "cnvlint", "props", "C*.py")))
respath = os.path.join(V, "refactors", "RESULTS.json")
results = json.load(open(respath)) if os.path.exists(respath) else {}
assert subprocess.run(["git", "-C", "/repo", "diff", "--quiet"]).returncode == 0, "/repo not clean"
for sid in ids:
    patch = os.path.join(V, "refactors", sid, "patch.diff")
    if subprocess.run(["git", "-C", "/repo", "apply", patch]).returncode != 0:
        results[sid] = {"error": "patch does not apply to current /repo HEAD"}; print(sid, "PATCH DOES NOT APPLY"); continue
    try:
        procs = {p: subprocess.Popen([PY, "-m", "cnvlint", "check", p, "--nowrite"], cwd=V, stdout=subprocess.PIPE, stderr=subprocess.STDOUT, text=True) for p in props}
        alarms, undecided = {}, {}
        for p, pr in procs.items():
            out = pr.communicate()[0]
            if pr.returncode == 1:
                alarms[p] = [l.strip()[:300] for l in out.splitlines() if l.startswith("   ")][:3]
            elif pr.returncode == 2:
                undecided[p] = next((l for l in out.splitlines() if l.startswith("ANALYSIS-ERROR")), "")[:300]
    finally:
        subprocess.run(["git", "-C", "/repo", "checkout", "--", "."])
    results[sid] = {"property": sid[:3], "alarms": alarms, "undecided": undecided, "head": subprocess.check_output(["git", "-C", "/repo", "rev-parse", "--short", "HEAD"], text=True).strip()}
    print(f"{sid}: {'ALARM in ' + ','.join(alarms) if alarms else 'SILENT'}" + (f"  (exit 2 in {sorted(undecided)})" if undecided else ""))
json.dump(results, open(respath, "w"), indent=1, sort_keys=True)
