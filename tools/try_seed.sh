#!/bin/bash
# try_seed.sh <dir-with-patch.diff> [pids...] : apply the patch to /repo, run the named checks (default: all), undo.
d=$1; shift
pids=${@:-"C01 C02 C03 C04 C05 C06 C07 C08 C09 C10 C12 C13 C14 C15 C16 C17 C18 C19 C20"}
cd /repo || exit 2
git diff --quiet || { echo "/repo not clean"; exit 2; }
git apply "$d/patch.diff" || { echo "patch does not apply"; exit 2; }
cd /verif
for p in $pids; do
  [ -f cnvlint/props/$p.py ] || continue
  out=$(/venv/bin/python -m cnvlint check $p --nowrite 2>&1 | grep -E -A1 "^(VIOLATION|ANALYSIS-ERROR)" | cut -c1-260 | head -8)
  [ -n "$out" ] && echo "== $p" && echo "$out"
done
git -C /repo checkout -- .
git -C /repo status --short
