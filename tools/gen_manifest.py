#!/usr/bin/env python3
"""Regenerate /verif/MANIFEST.json from the property modules that exist (run from /verif)."""
import importlib, json, os, sys
sys.path.insert(0, os.path.dirname(os.path.dirname(os.path.abspath(__file__))))
PY = "/venv/bin/python"
BASE = json.load(open("/root/.vp/BASELINE.json"))["cmd"] if os.path.exists("/root/.vp/BASELINE.json") else ""
NA = {
    "C11": "statistical detection power of the Haar FDR threshold / a trained HMM on noisy steps: a property of floating-point "
           "computations over arbitrary signals with no clause whose truth is visible in the shape of the code; the only "
           "structural facts nearby (method dispatch) are decided under C03 (see DESIGN.md section 4, C11)",
}
checks, na = [], []
props = [json.loads(l) for l in open(os.path.join(os.path.dirname(__file__), "..", "properties.jsonl"))]
for p in props:
    pid = p["id"]
    if pid in NA:
        na.append({"property_id": pid, "reason": NA[pid]}); continue
    try:
        m = importlib.import_module(f"cnvlint.props.{pid}")
    except ModuleNotFoundError:
        na.append({"property_id": pid, "reason": "check not built yet (work in progress; see DESIGN.md section 4 for the planned clauses)"}); continue
    checks.append({
        "property_id": pid,
        "quick_cmd": f"{PY} -m cnvlint check {pid} --tier quick",
        "thorough_cmd": f"{PY} -m cnvlint check {pid} --tier thorough",
        "evidence_file": f"/verif/evidence/{pid}.json",
        "replay_cmd_template": f"{PY} -m cnvlint explain {{path}}",
        "engine": "cnvlint",
        "level_claimed": {"category": "other", "text": m.LEVEL_TEXT, "design_ref": f"DESIGN.md section 4, {pid}"},
        "level_note": getattr(m, "LEVEL_NOTE", "trusted base: Python grammar via ast; the library-semantics model tables (pandas >= 3 "
                      "copy-on-write, .loc closed / .iloc half-open, numpy broadcasting, pysam 0-based coordinates, Executor.map order); "
                      "the oracle tables transcribed from the property statement. Decides the structural clauses named in the text, not "
                      "the numeric behaviour."),
        "technique": getattr(m, "TECHNIQUE", "static analysis over the AST of /repo (repository-specific rules)"),
    })
man = {
    "version": 1,
    "setup_cmd": f"cd /verif && {PY} -c \"import cnvlint.cli, ast, sys; assert sys.version_info >= (3, 9)\"",
    "hooks": {"guard": "ETAL_CNVKIT_VERIF", "enable": "none needed: static analysis reads the sources, no instrumentation is compiled in",
              "baseline_off_cmd": BASE.replace("--junitxml=<file>", "").strip(), "source_commits": [], "add_only": True},
    "engines": [{"name": "cnvlint", "path": "/verif/cnvlint", "serves_properties": [c["property_id"] for c in checks],
                 "kind_free_text": "stdlib-only Python static analyser (ast): effect/alias fix-point, coordinate-offset dataflow, finite-domain "
                                   "abstract interpretation of decision functions, pandas index/slice discipline, dominance/typestate rules, "
                                   "registry and role-flow agreement"}],
    "checks": checks,
    "not_applicable": na,
    "notes": "All checks parse /repo's working tree on every run; exit 0 = obligations discharged, 1 = VIOLATION, 2 = ANALYSIS-ERROR "
             "(the analyser could not decide; never a silent pass). Findings are keyed by rule + construct (known_findings.json).",
}
json.dump(man, open(os.path.join(os.path.dirname(__file__), "..", "MANIFEST.json"), "w"), indent=1)
print("checks:", [c["property_id"] for c in checks], "n/a:", [n["property_id"] for n in na])
